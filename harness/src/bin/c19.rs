//! C19: operations are pure, deterministic and safe to run concurrently on shared Bdds; Bdd,
//! variable-set and valuation values are Send and Sync.
//!
//! (1) compile-time `Send + Sync` instantiations (a type losing them stops this file from building);
//! (2) programs of library operations over a shared `Arc<Vec<Bdd>>` + `Arc<BddVariableSet>` are run
//!     sequentially in the main thread, concurrently (one real thread per program, released together
//!     by a barrier), sequentially once more, and once more in a CHILD PROCESS (`c19 single`, other
//!     `RandomState` seeds); the texts of all results of the first run and the hashes of all results
//!     of the other runs are written; the pool is printed again after everything.
#![allow(deprecated)]
#[path = "../common.rs"]
mod common;
use biodivine_lib_bdd::boolean_expression::BooleanExpression;
use biodivine_lib_bdd::*;
use common::*;
use std::io::{Read, Write};
use std::process::{Command, Stdio};
use std::sync::{Arc, Barrier};

fn s(x: &str) -> String { x.to_string() }

// ------------------------------------------------------------------------------------------------
// (1) Send + Sync, checked by the compiler

fn assert_send_sync<T: Send + Sync>() -> &'static str { std::any::type_name::<T>() }

fn type_assertions() -> Vec<&'static str> {
    vec![
        assert_send_sync::<Bdd>(),
        assert_send_sync::<BddVariableSet>(),
        assert_send_sync::<BddVariableSetBuilder>(),
        assert_send_sync::<BddValuation>(),
        assert_send_sync::<BddPartialValuation>(),
        assert_send_sync::<BddVariable>(),
        assert_send_sync::<BddPointer>(),
        assert_send_sync::<BddNode>(),
        assert_send_sync::<BooleanExpression>(),
        assert_send_sync::<BddSatisfyingValuations<'static>>(),
        assert_send_sync::<OwnedBddSatisfyingValuations>(),
        assert_send_sync::<BddPathIterator<'static>>(),
        assert_send_sync::<OwnedBddPathIterator>(),
        assert_send_sync::<ValuationsOfClauseIterator>(),
        assert_send_sync::<BddValuationIterator>(),
        // shared references are what the threads of (2) actually hold
        assert_send_sync::<&'static Bdd>(),
        assert_send_sync::<&'static BddVariableSet>(),
        assert_send_sync::<Arc<Vec<Bdd>>>(),
        assert_send_sync::<Arc<BddVariableSet>>(),
    ]
}

// ------------------------------------------------------------------------------------------------
// (2) programs

/// a local of a thread
enum V {
    B(Bdd),
    T(String),
}

fn fnv(text: &str) -> u64 {
    let mut h: u64 = 0xcbf29ce484222325;
    for b in text.as_bytes() { h ^= *b as u64; h = h.wrapping_mul(0x100000001b3); }
    h
}

fn parse_vars(a: &str) -> Vec<BddVariable> {
    if a == "~" { vec![] } else { a.split('.').map(|x| var(x.parse().unwrap())).collect() }
}
fn parse_pv(a: &str) -> Vec<(BddVariable, bool)> {
    if a == "~" { return vec![]; }
    a.split('.').map(|x| { let (v, b) = x.split_once('=').unwrap(); (var(v.parse().unwrap()), b == "1") }).collect()
}
fn parse_bits(a: &str) -> Vec<bool> { if a == "~" { vec![] } else { a.chars().map(|c| c == '1').collect() } }

fn fmt_pv_list(xs: &[BddPartialValuation], n: usize) -> String {
    let all: Vec<String> = xs.iter().map(|x| fmt_partial(x, n).replace(';', "+")).collect();
    let mut out = format!("{}#{}", xs.len(), all.iter().take(24).cloned().collect::<Vec<_>>().join("."));
    // the order of the WHOLE list is part of the observation
    if all.len() > 24 { out.push_str(&format!("+h{}", fnv(&all.join(".")))); }
    out
}
fn op_by_name(name: &str) -> fn(Option<bool>, Option<bool>) -> Option<bool> {
    match name {
        "and" => op_function::and, "or" => op_function::or, "xor" => op_function::xor,
        "imp" => op_function::imp, "iff" => op_function::iff, "and_not" => op_function::and_not,
        _ => panic!("operator {}", name),
    }
}
fn parse_optvar(a: &str) -> Option<BddVariable> { if a == "-" { None } else { Some(var(a.parse().unwrap())) } }
fn fmt_check(r: Option<(bool, usize)>) -> String { match r { Some((f, c)) => format!("{}.{}", f as u8, c), None => s("none") } }
fn fmt_opt_val(v: Option<BddValuation>) -> String { match v { Some(v) => fmt_valuation(&v), None => s("none") } }
fn fmt_opt_pv(v: Option<BddPartialValuation>, n: usize) -> String { match v { Some(v) => fmt_partial(&v, n).replace(';', "+"), None => s("none") } }

/// One instruction `name:arg,arg,…` on the shared pool / variable set and the thread's own locals.
/// `Err(())` = an operand reference dangles or is not a Bdd (outcome `stuck`).
fn exec(pool: &[Bdd], vs: &BddVariableSet, locals: &[V], ins: &str) -> Result<V, ()> {
    let (name, rest) = ins.split_once(':').unwrap_or((ins, ""));
    let a: Vec<&str> = if rest.is_empty() { vec![] } else { rest.split(',').collect() };
    let bdd = |r: &str| -> Result<&Bdd, ()> {
        let i: usize = r[1..].parse().map_err(|_| ())?;
        match &r[..1] {
            "p" => pool.get(i).ok_or(()),
            "l" => match locals.get(i) { Some(V::B(b)) => Ok(b), _ => Err(()) },
            _ => Err(()),
        }
    };
    let n = vs.num_vars() as usize;
    let b = |x: Bdd| Ok(V::B(x));
    let t = |x: String| Ok(V::T(x));
    let ob = |x: Option<Bdd>| match x { Some(x) => Ok(V::B(x)), None => Ok(V::T(s("none"))) };
    match name {
        "and" => b(bdd(a[0])?.and(bdd(a[1])?)),
        "or" => b(bdd(a[0])?.or(bdd(a[1])?)),
        "xor" => b(bdd(a[0])?.xor(bdd(a[1])?)),
        "imp" => b(bdd(a[0])?.imp(bdd(a[1])?)),
        "iff" => b(bdd(a[0])?.iff(bdd(a[1])?)),
        "and_not" => b(bdd(a[0])?.and_not(bdd(a[1])?)),
        "not" => b(bdd(a[0])?.not()),
        "ite" => b(Bdd::if_then_else(bdd(a[0])?, bdd(a[1])?, bdd(a[2])?)),
        "exists" => b(bdd(a[0])?.exists(&parse_vars(a[1]))),
        "for_all" => b(bdd(a[0])?.for_all(&parse_vars(a[1]))),
        "project" => b(bdd(a[0])?.project(&parse_vars(a[1]))),
        "var_exists" => b(bdd(a[0])?.var_exists(var(a[1].parse().unwrap()))),
        "var_for_all" => b(bdd(a[0])?.var_for_all(var(a[1].parse().unwrap()))),
        "var_project" => b(bdd(a[0])?.var_project(var(a[1].parse().unwrap()))),
        "and_exists" => b(Bdd::binary_op_with_exists(bdd(a[0])?, bdd(a[1])?, op_function::and, &parse_vars(a[2]))),
        "imp_for_all" => b(Bdd::binary_op_with_for_all(bdd(a[0])?, bdd(a[1])?, op_function::imp, &parse_vars(a[2]))),
        "select" => b(bdd(a[0])?.select(&parse_pv(a[1]))),
        "restrict" => b(bdd(a[0])?.restrict(&parse_pv(a[1]))),
        "var_select" => b(bdd(a[0])?.var_select(var(a[1].parse().unwrap()), a[2] == "1")),
        "var_restrict" => b(bdd(a[0])?.var_restrict(var(a[1].parse().unwrap()), a[2] == "1")),
        "pick" => b(bdd(a[0])?.pick(&parse_vars(a[1]))),
        "var_pick" => b(bdd(a[0])?.var_pick(var(a[1].parse().unwrap()))),
        "pick_random" => b(bdd(a[0])?.pick_random(&parse_vars(a[1]), &mut CoinRng::new(parse_bits(a[2])))),
        "substitute" => b(bdd(a[0])?.substitute(var(a[1].parse().unwrap()), bdd(a[2])?)),
        "dnf_rt" => b(vs.mk_dnf(&bdd(a[0])?.to_dnf())),
        "odnf_rt" => b(vs.mk_dnf(&bdd(a[0])?.to_optimized_dnf())),
        "cnf_rt" => b(vs.mk_cnf(&bdd(a[0])?.to_cnf())),
        "str_rt" => b(Bdd::from_string(&bdd(a[0])?.to_string())),
        "bytes_rt" => { let bytes = bdd(a[0])?.to_bytes(); b(Bdd::from_bytes(&mut &bytes[..])) }
        "expr_rt" => ob(vs.safe_eval_expression(&bdd(a[0])?.to_boolean_expression(vs))),
        "evalstr" => b(vs.eval_expression_string(a[0])),
        "mk_var" => b(vs.mk_var_by_name(&format!("x{}", a[0]))),
        "mk_exactly_k" => b(vs.mk_sat_exactly_k(a[0].parse().unwrap(), &parse_vars(a[1]))),
        "mk_up_to_k" => b(vs.mk_sat_up_to_k(a[0].parse().unwrap(), &parse_vars(a[1]))),
        "mk_clause" => b(vs.mk_conjunctive_clause(&BddPartialValuation::from_values(&parse_pv(a[0])))),
        "transfer" => ob(vs.transfer_from(bdd(a[0])?, vs)),
        "of_valuation" => b(Bdd::from(BddValuation::new(parse_bits(a[0])))),
        // ---- results that are not Bdds
        "to_dnf" => t(fmt_pv_list(&bdd(a[0])?.to_dnf(), n)),
        "to_cnf" => t(fmt_pv_list(&bdd(a[0])?.to_cnf(), n)),
        "to_odnf" => t(fmt_pv_list(&bdd(a[0])?.to_optimized_dnf(), n)),
        "sat_clauses" => t(fmt_pv_list(&bdd(a[0])?.sat_clauses().collect::<Vec<_>>(), n)),
        "sat_vals" => {
            let all: Vec<String> = bdd(a[0])?.sat_valuations().map(|v| fmt_valuation(&v)).collect();
            t(format!("{}#{}", all.len(), all.iter().take(24).cloned().collect::<Vec<_>>().join(".")))
        }
        "to_string" => t(bdd(a[0])?.to_string()),
        "to_bytes" => t(bdd(a[0])?.to_bytes().iter().map(|x| format!("{:02x}", x)).collect()),
        "expr_text" => t(format!("{}", bdd(a[0])?.to_boolean_expression(vs)).replace(' ', "_")),
        "expr_support" => {
            let mut names: Vec<String> = bdd(a[0])?.to_boolean_expression(vs).support_set().into_iter().collect();
            names.sort();
            t(format!("[{}]", names.join(".")))
        }
        "dot" => t(format!("dot{}", fnv(&bdd(a[0])?.to_dot_string(vs, a[1] == "1")))),
        "card" => t(bdd(a[0])?.exact_cardinality().to_string()),
        "clause_card" => t(bdd(a[0])?.exact_clause_cardinality().to_string()),
        "fcard" => t(format!("f{:016x}", bdd(a[0])?.cardinality().to_bits())),
        "witness" => t(fmt_opt_val(bdd(a[0])?.sat_witness())),
        "first_val" => t(fmt_opt_val(bdd(a[0])?.first_valuation())),
        "last_val" => t(fmt_opt_val(bdd(a[0])?.last_valuation())),
        "most_pos" => t(fmt_opt_val(bdd(a[0])?.most_positive_valuation())),
        "most_neg" => t(fmt_opt_val(bdd(a[0])?.most_negative_valuation())),
        "random_val" => t(fmt_opt_val(bdd(a[0])?.random_valuation(&mut CoinRng::new(parse_bits(a[1]))))),
        "first_clause" => t(fmt_opt_pv(bdd(a[0])?.first_clause(), n)),
        "last_clause" => t(fmt_opt_pv(bdd(a[0])?.last_clause(), n)),
        "most_fixed" => t(fmt_opt_pv(bdd(a[0])?.most_fixed_clause(), n)),
        "most_free" => t(fmt_opt_pv(bdd(a[0])?.most_free_clause(), n)),
        "necessary" => t(fmt_opt_pv(bdd(a[0])?.necessary_clause(), n)),
        "random_clause" => t(fmt_opt_pv(bdd(a[0])?.random_clause(&mut CoinRng::new(parse_bits(a[1]))), n)),
        "support" => {
            let mut v: Vec<usize> = bdd(a[0])?.support_set().into_iter().map(|x| x.to_index()).collect();
            v.sort();
            t(format!("[{}]", fmt_usizes(&v)))
        }
        "size_per_var" => {
            let mut v: Vec<(usize, usize)> = bdd(a[0])?.size_per_variable().into_iter().map(|(x, c)| (x.to_index(), c)).collect();
            v.sort();
            t(format!("[{}]", v.iter().map(|(x, c)| format!("{}={}", x, c)).collect::<Vec<_>>().join(".")))
        }
        "names" => {
            let mut v: Vec<(usize, String)> = vs.variable_name_assignment().into_iter().map(|(x, c)| (x.to_index(), c)).collect();
            v.sort();
            let by_name = vs.var_by_name(&format!("x{}", a[0])).map(|x| x.to_index());
            t(format!("[{}]{}", v.iter().map(|(x, c)| format!("{}={}", x, c)).collect::<Vec<_>>().join("."), fmt_optvar(by_name)))
        }
        "props" => {
            let x = bdd(a[0])?;
            t(format!("sz{}.{}{}{}{}.{}", x.size(), x.is_true() as u8, x.is_false() as u8, x.is_clause() as u8, x.is_valuation() as u8,
                if x.validate().is_ok() { "valid" } else { "invalid" }))
        }
        "eval" => t(s(if bdd(a[0])?.eval_in(&BddValuation::new(parse_bits(a[1]))) { "1" } else { "0" })),
        // dry runs and size-limited operators: name, limit, operands (with optional flips)
        "check" => t(fmt_check(Bdd::check_binary_op(a[1].parse().unwrap(), bdd(a[2])?, bdd(a[3])?, op_by_name(a[0])))),
        "check_flip" => t(fmt_check(Bdd::check_fused_binary_flip_op(a[1].parse().unwrap(), (bdd(a[2])?, parse_optvar(a[3])),
            (bdd(a[4])?, parse_optvar(a[5])), parse_optvar(a[6]), op_by_name(a[0])))),
        "lim" => ob(Bdd::binary_op_with_limit(a[1].parse().unwrap(), bdd(a[2])?, bdd(a[3])?, op_by_name(a[0]))),
        "lim_flip" => ob(Bdd::fused_binary_flip_op_with_limit(a[1].parse().unwrap(), (bdd(a[2])?, parse_optvar(a[3])),
            (bdd(a[4])?, parse_optvar(a[5])), parse_optvar(a[6]), op_by_name(a[0]))),
        "flip" => b(Bdd::fused_binary_flip_op((bdd(a[1])?, parse_optvar(a[2])), (bdd(a[3])?, parse_optvar(a[4])), parse_optvar(a[5]), op_by_name(a[0]))),
        // writer-taking functions into an accepting sink
        "wbytes" => { let mut sink: Vec<u8> = vec![]; bdd(a[0])?.write_as_bytes(&mut sink).unwrap(); t(sink.iter().map(|x| format!("{:02x}", x)).collect()) }
        "wstring" => { let mut sink: Vec<u8> = vec![]; bdd(a[0])?.write_as_string(&mut sink).unwrap(); t(String::from_utf8(sink).unwrap()) }
        "wdot" => { let mut sink: Vec<u8> = vec![]; bdd(a[0])?.write_as_dot_string(&mut sink, vs, a[1] == "1").unwrap(); t(format!("dot{}", fnv(&String::from_utf8(sink).unwrap()))) }
        "rbytes" => { let bytes = bdd(a[0])?.to_bytes(); ob(Bdd::read_as_bytes(&mut &bytes[..]).ok()) }
        "rstring" => { let text = bdd(a[0])?.to_string(); ob(Bdd::read_as_string(&mut text.as_bytes()).ok()) }
        "cmp" => {
            let (x, y) = (bdd(a[0])?, bdd(a[1])?);
            t(format!("{:?}.{:?}.{:?}.{}", Bdd::cmp_size(x, y), Bdd::cmp_cardinality(x, y), Bdd::cmp_structural(x, y), (x == y) as u8))
        }
        _ => panic!("unknown instruction {}", ins),
    }
}

fn operand_refs(ins: &str) -> Vec<&str> {
    let rest = ins.split_once(':').map(|x| x.1).unwrap_or("");
    rest.split(',').filter(|r| r.len() >= 2 && (r.starts_with('p') || r.starts_with('l')) && r[1..].chars().all(|c| c.is_ascii_digit())).collect()
}

fn show(v: &Result<Option<V>, ()>) -> String {
    match v {
        Ok(Some(V::B(b))) => fmt_bdd(b),
        Ok(Some(V::T(t))) => if t.is_empty() { s("~") } else { t.clone() },
        Ok(None) => s("panic"),
        Err(()) => s("stuck"),
    }
}

/// runs one program; the result texts, oldest first. After every instruction the operands are
/// compared with their text before the call (`!operand-changed` is appended to the result if not).
fn exec_prog(pool: &[Bdd], vs: &BddVariableSet, prog: &str) -> Vec<String> { exec_prog_iso(pool, vs, prog, false).0 }

fn eval_one(pool: &[Bdd], vs: &BddVariableSet, locals: &[V], ins: &str) -> Result<Option<V>, ()> {
    match catch(|| exec(pool, vs, locals, ins)) {
        None => Ok(None),
        Some(Ok(v)) => Ok(Some(v)),
        Some(Err(())) => Err(()),
    }
}

/// as `exec_prog`; with `isolate` every single operation is ALSO evaluated, on the same operand
/// values, by a newly spawned thread that has never computed anything (second list): the result of
/// an operation must not depend on what its thread computed before.
fn exec_prog_iso(pool: &[Bdd], vs: &BddVariableSet, prog: &str, isolate: bool) -> (Vec<String>, Vec<String>) {
    let mut locals: Vec<V> = Vec::new();
    let mut texts: Vec<String> = Vec::new();
    let mut iso: Vec<String> = Vec::new();
    if prog == "~" { return (texts, iso); }
    for ins in prog.split(';') {
        let operand_text = |locals: &[V]| -> Vec<String> {
            operand_refs(ins).iter().map(|r| {
                let i: usize = r[1..].parse().unwrap();
                match (&r[..1], locals.get(i)) {
                    ("p", _) => pool.get(i).map(fmt_bdd).unwrap_or_default(),
                    (_, Some(V::B(b))) => fmt_bdd(b),
                    _ => String::new(),
                }
            }).collect()
        };
        let before = operand_text(&locals);
        let r = eval_one(pool, vs, &locals, ins);
        let mut text = show(&r);
        if operand_text(&locals) != before { text.push_str("!operand-changed"); }
        if isolate {
            let locals_ref: &[V] = &locals;
            let fresh = std::thread::scope(|sc| {
                std::thread::Builder::new().stack_size(512 * 1024)
                    .spawn_scoped(sc, move || show(&eval_one(pool, vs, locals_ref, ins))).expect("spawn").join()
            });
            iso.push(fresh.unwrap_or_else(|_| s("thread-died")));
        }
        texts.push(text);
        locals.push(match r { Ok(Some(v)) => v, Ok(None) => V::T(s("panic")), Err(()) => V::T(s("stuck")) });
    }
    (texts, iso)
}

fn parse_pool(text: &str) -> Vec<Bdd> {
    if text == "~" { return vec![]; }
    text.split('/').map(Bdd::from_string).collect()
}
fn var_set(n: usize) -> BddVariableSet {
    let names: Vec<String> = (0..n).map(|i| format!("x{}", i)).collect();
    BddVariableSet::new(&names.iter().map(|x| x.as_str()).collect::<Vec<_>>())
}
fn hashes(results: &[Vec<String>]) -> String {
    if results.is_empty() { return s("~"); }
    results.iter().map(|r| if r.is_empty() { s("~") } else { r.iter().map(|x| fnv(x).to_string()).collect::<Vec<_>>().join(".") }).collect::<Vec<_>>().join("/")
}
fn texts(results: &[Vec<String>]) -> String {
    if results.is_empty() { return s("~"); }
    results.iter().map(|r| if r.is_empty() { s("~") } else { r.join(";") }).collect::<Vec<_>>().join("/")
}

const ISO_PROGS: usize = 3;

fn run_sequential(pool: &[Bdd], vs: &BddVariableSet, progs: &[&str]) -> Vec<Vec<String>> {
    progs.iter().map(|p| exec_prog(pool, vs, p)).collect()
}

fn run_threads(pool: &Arc<Vec<Bdd>>, vs: &Arc<BddVariableSet>, progs: &[&str]) -> Vec<Vec<String>> {
    let barrier = Arc::new(Barrier::new(progs.len()));
    let handles: Vec<_> = progs.iter().map(|p| {
        let (pool, vs, barrier, p) = (pool.clone(), vs.clone(), barrier.clone(), p.to_string());
        std::thread::spawn(move || {
            barrier.wait();
            // three repetitions inside the thread keep the threads overlapping for longer
            let first = exec_prog(&pool, &vs, &p);
            for _ in 0..2 {
                if exec_prog(&pool, &vs, &p) != first { return vec![s("repetition-in-thread-differs")]; }
            }
            first
        })
    }).collect();
    handles.into_iter().map(|h| h.join().unwrap_or_else(|_| vec![s("thread-died")])).collect()
}

/// `c19 single`: reads `run <n> <pool> <progs>` or `rep <n> <pool> <prog> <reps>` from stdin, runs
/// sequentially in this fresh process, prints the hashes
fn single() {
    std::panic::set_hook(Box::new(|_| {}));
    let mut input = String::new();
    std::io::stdin().read_to_string(&mut input).unwrap();
    let f: Vec<&str> = input.split_whitespace().collect();
    let pool = parse_pool(f[2]);
    let vs = var_set(f[1].parse().unwrap());
    if f[0] == "rep" {
        let reps: usize = f[4].parse().unwrap();
        let runs: Vec<Vec<String>> = (0..reps).map(|_| exec_prog(&pool, &vs, f[3])).collect();
        println!("{}", hashes(&runs));
    } else {
        let progs: Vec<&str> = f[3].split('/').collect();
        println!("{}", hashes(&run_sequential(&pool, &vs, &progs)));
    }
}

fn run_child(request: &str) -> String {
    let exe = match std::env::current_exe() { Ok(e) => e, Err(_) => return s("child-no-exe") };
    let mut child = match Command::new(exe).arg("single").stdin(Stdio::piped()).stdout(Stdio::piped()).stderr(Stdio::null()).spawn() {
        Ok(c) => c,
        Err(_) => return s("child-spawn-failed"),
    };
    {
        let mut stdin = child.stdin.take().unwrap();
        let _ = stdin.write_all(format!("{}\n", request).as_bytes());
    }
    match child.wait_with_output() {
        Ok(o) if o.status.success() => { let t = String::from_utf8_lossy(&o.stdout).trim().to_string(); if t.is_empty() { s("child-empty") } else { t } }
        _ => s("child-died"),
    }
}

pub fn run(key: &str, a: &[String], out: &mut Out) {
    out.begin(key, a);
    match key {
        "C19.types" => {
            let names = type_assertions();
            out.case(key, a, &[s("ok"), names.len().to_string()]);
        }
        "C19.run" => {
            // n pool progs => seq-texts thread-hashes second-run-hashes child-hashes pool-after isolated-hashes
            let pool = parse_pool(&a[1]);
            let n: usize = a[0].parse().unwrap();
            let progs: Vec<&str> = a[2].split('/').collect();
            let (pool, vs) = (Arc::new(pool), Arc::new(var_set(n)));
            // the sequential reference; every single operation is also evaluated by a fresh thread
            // (of the first ISO_PROGS programs of a case: a thread spawn per operation is the dominant cost)
            let both: Vec<(Vec<String>, Vec<String>)> = progs.iter().enumerate().map(|(i, p)| exec_prog_iso(&pool, &vs, p, i < ISO_PROGS)).collect();
            let seq: Vec<Vec<String>> = both.iter().map(|x| x.0.clone()).collect();
            let iso: String = both.iter().enumerate().map(|(i, x)| if i < ISO_PROGS { hashes(&[x.1.clone()]) } else { s("-") }).collect::<Vec<_>>().join("/");
            let thr = run_threads(&pool, &vs, &progs);
            let again = run_sequential(&pool, &vs, &progs);
            let child = run_child(&format!("run {} {} {}", a[0], a[1], a[2]));
            let after = if pool.is_empty() { s("~") } else { pool.iter().map(fmt_bdd).collect::<Vec<_>>().join("/") };
            out.case(key, a, &[texts(&seq), hashes(&thr), hashes(&again), child, after, iso]);
        }
        "C19.rep" => {
            // n pool prog reps => texts-of-first-evaluation, then the hashes of `reps` evaluations of the whole
            // program: in this thread, each on a thread of its own, in a child process
            let pool = Arc::new(parse_pool(&a[1]));
            let vs = Arc::new(var_set(a[0].parse().unwrap()));
            let reps: usize = a[3].parse().unwrap();
            let inproc: Vec<Vec<String>> = (0..reps).map(|_| exec_prog(&pool, &vs, &a[2])).collect();
            let handles: Vec<_> = (0..reps).map(|_| {
                let (pool, vs, p) = (pool.clone(), vs.clone(), a[2].clone());
                std::thread::spawn(move || exec_prog(&pool, &vs, &p))
            }).collect();
            let threads: Vec<Vec<String>> = handles.into_iter().map(|h| h.join().unwrap_or_else(|_| vec![s("thread-died")])).collect();
            let child = run_child(&format!("rep {} {} {} {}", a[0], a[1], a[2], a[3]));
            let first = inproc.first().cloned().unwrap_or_default();
            out.case(key, a, &[if first.is_empty() { s("~") } else { first.join(";") }, hashes(&inproc), hashes(&threads), child]);
        }
        "C19.names" => {
            // k namesA namesB queries => per query the DISTINCT results over all fresh builds, number of builds
            let k: usize = a[0].parse().unwrap();
            let names_a: Vec<String> = esc_list(&a[1]);
            let names_b: Vec<String> = esc_list(&a[2]);
            let queries: Vec<String> = if a[3] == "~" { vec![] } else { a[3].split(';').map(unesc).collect() };
            let eval_all = |sa: &BddVariableSet, sb: &BddVariableSet| -> Vec<String> {
                queries.iter().map(|q| catch(|| name_query(sa, sb, q)).unwrap_or_else(|| s("panic"))).collect()
            };
            let mut seen: Vec<std::collections::BTreeSet<String>> = vec![Default::default(); queries.len()];
            let mut builds = 0usize;
            let mut record = |r: Vec<String>, builds: &mut usize| { *builds += 1; for (i, x) in r.into_iter().enumerate() { seen[i].insert(x); } };
            // fresh sets in this thread: `new`, the builder, a clone of a fresh set, `From<Vec<String>>`
            for rep in 0..k {
                match catch(|| (build_set(&names_a, rep % 4), build_set(&names_b, (rep / 4) % 4))) {
                    Some((sa, sb)) => record(eval_all(&sa, &sb), &mut builds),
                    None => record(vec![s("build-panic"); queries.len()], &mut builds),
                }
            }
            // fresh sets built inside k threads, and one shared pair queried by all of them
            if let Some(shared) = catch(|| Arc::new((build_set(&names_a, 0), build_set(&names_b, 0)))) {
                let results: Vec<(Vec<String>, Vec<String>)> = std::thread::scope(|sc| {
                    let handles: Vec<_> = (0..k).map(|rep| {
                        let (shared, names_a, names_b, eval_all) = (shared.clone(), &names_a, &names_b, &eval_all);
                        sc.spawn(move || {
                            let own = match catch(|| (build_set(names_a, rep % 4), build_set(names_b, (rep / 4) % 4))) {
                                Some((sa, sb)) => eval_all(&sa, &sb),
                                None => vec![],
                            };
                            (own, eval_all(&shared.0, &shared.1))
                        })
                    }).collect();
                    handles.into_iter().map(|h| h.join().unwrap_or_default()).collect()
                });
                for (own, sh) in results {
                    record(if own.len() == queries.len() { own } else { vec![s("thread-died"); queries.len()] }, &mut builds);
                    record(if sh.len() == queries.len() { sh } else { vec![s("thread-died"); queries.len()] }, &mut builds);
                }
            }
            let obs = if seen.is_empty() { s("~") } else { seen.iter().map(|x| x.iter().cloned().collect::<Vec<_>>().join("#")).collect::<Vec<_>>().join(";") };
            out.case(key, a, &[obs, builds.to_string()]);
        }
        "C19.hist" => {
            // n pool disturbance panel => panel texts on a fresh thread; hashes of the panel after the disturbance on a
            // fresh thread, of both panels of (disturbance, panel, disturbance, panel) on a fresh thread, of the panel
            // on THIS thread (whose history is everything the harness did so far), of (disturbance, panel) on this
            // thread; outcomes of the disturbance items
            let pool = Arc::new(parse_pool(&a[1]));
            let vs = Arc::new(var_set(a[0].parse().unwrap()));
            let (dist, panel) = (a[2].clone(), a[3].clone());
            let fresh = |f: Box<dyn FnOnce(&[Bdd], &BddVariableSet) -> Vec<Vec<String>> + Send>| -> Vec<Vec<String>> {
                let (pool, vs) = (pool.clone(), vs.clone());
                std::thread::spawn(move || f(&pool, &vs)).join().unwrap_or_else(|_| vec![vec![s("thread-died")]])
            };
            let (p1, p2, p3, p4) = (panel.clone(), panel.clone(), panel.clone(), panel.clone());
            let (d1, d2, d3) = (dist.clone(), dist.clone(), dist.clone());
            let reference = fresh(Box::new(move |pool, vs| vec![exec_prog(pool, vs, &p1)]));
            let after = fresh(Box::new(move |pool, vs| { let o = disturb_all(pool, vs, &d1); vec![exec_prog(pool, vs, &p2), o] }));
            let twice = fresh(Box::new(move |pool, vs| {
                disturb_all(pool, vs, &d2);
                let first = exec_prog(pool, vs, &p3);
                disturb_all(pool, vs, &d2);
                vec![first, exec_prog(pool, vs, &p3)]
            }));
            let here = exec_prog(&pool, &vs, &p4);
            disturb_all(&pool, &vs, &d3);
            let here_after = exec_prog(&pool, &vs, &p4);
            let outcomes = after.get(1).cloned().unwrap_or_default();
            out.case(key, a, &[texts(&reference), hashes(&after[..1]), hashes(&twice), hashes(&[here]), hashes(&[here_after]),
                if outcomes.is_empty() { s("~") } else { outcomes.join(".") }]);
        }
        "C19.rng" => {
            // bdd vars r seed coins => per (operation, generator) the distinct `result@draws` over 2r identically seeded
            // runs (r in this thread, r in threads); per operation the results of r runs with OTHER seeds
            let bdd = Arc::new(Bdd::from_string(&a[0]));
            let vars = Arc::new(parse_vars(&a[1]));
            let r: usize = a[2].parse().unwrap();
            let seed: u64 = a[3].parse().unwrap();
            let coins = Arc::new(parse_bits(&a[4]));
            let n = bdd.num_vars() as usize;
            // one evaluation of operation `op` (0..4) with a counting wrapper around a freshly seeded generator
            fn one(bdd: &Bdd, vars: &[BddVariable], n: usize, op: usize, std_seed: Option<u64>, coins: &[bool]) -> String {
                fn go<R: rand::RngCore>(bdd: &Bdd, vars: &[BddVariable], n: usize, op: usize, inner: R) -> String {
                    let mut rng = Counting { inner, draws: 0 };
                    let res = catch(|| match op {
                        0 => fmt_opt_val(bdd.random_valuation(&mut rng)),
                        1 => fmt_opt_pv(bdd.random_clause(&mut rng), n),
                        2 => match vars.first() { Some(v) => fmt_bdd(&bdd.var_pick_random(*v, &mut rng)), None => s("novar") },
                        _ => fmt_bdd(&bdd.pick_random(vars, &mut rng)),
                    }).unwrap_or_else(|| s("panic"));
                    format!("{}@{}", res, rng.draws)
                }
                match std_seed {
                    Some(sd) => go(bdd, vars, n, op, <rand::rngs::StdRng as rand::SeedableRng>::seed_from_u64(sd)),
                    None => go(bdd, vars, n, op, CoinRng::new(coins.to_vec())),
                }
            }
            let combos: Vec<(usize, bool)> = (0..4).flat_map(|op| [(op, true), (op, false)]).collect();
            let all = |bdd: &Bdd, vars: &[BddVariable], coins: &[bool]| -> Vec<String> {
                combos.iter().map(|(op, std)| one(bdd, vars, n, *op, if *std { Some(seed) } else { None }, coins)).collect()
            };
            let mut seen: Vec<std::collections::BTreeSet<String>> = vec![Default::default(); combos.len()];
            for _ in 0..r { for (i, x) in all(&bdd, &vars, &coins).into_iter().enumerate() { seen[i].insert(x); } }
            let from_threads: Vec<Vec<String>> = std::thread::scope(|sc| {
                let handles: Vec<_> = (0..r).map(|_| { let (bdd, vars, coins, all) = (&bdd, &vars, &coins, &all); sc.spawn(move || all(bdd, vars, coins)) }).collect();
                handles.into_iter().map(|h| h.join().unwrap_or_else(|_| vec![s("thread-died@0"); 8])).collect()
            });
            for run in from_threads { for (i, x) in run.into_iter().enumerate() { seen[i].insert(x); } }
            let det = seen.iter().map(|x| x.iter().cloned().collect::<Vec<_>>().join("#")).collect::<Vec<_>>().join(";");
            // other seeds (other paths through the diagram): each evaluated twice, identically seeded; `x!=y` if the two differ
            let other = (0..4).map(|op| (1..=r as u64).map(|d| {
                let sd = seed.wrapping_add(d.wrapping_mul(0x9E3779B97F4A7C15));
                let (x, y) = (one(&bdd, &vars, n, op, Some(sd), &coins), one(&bdd, &vars, n, op, Some(sd), &coins));
                if x == y { x } else { format!("{}!={}", x, y) }
            }).collect::<Vec<_>>().join("#")).collect::<Vec<_>>().join(";");
            out.case(key, a, &[det, other]);
        }
        _ => panic!("unknown key {}", key),
    }
}

// ---- history independence (C19.hist): disturbances

/// accepts `accept` bytes, then fails: `z` = `Ok(0)` (std's `write_all` turns it into WriteZero), `e` = an error,
/// `i` = `Interrupted` once (retried by `write_all`), then an error
struct FailingWriter { accept: usize, mode: char, written: usize, interrupted: bool }
impl Write for FailingWriter {
    fn write(&mut self, buf: &[u8]) -> std::io::Result<usize> {
        if self.written < self.accept {
            let k = buf.len().min(self.accept - self.written);
            self.written += k;
            return Ok(k);
        }
        match self.mode {
            'z' => Ok(0),
            'i' if !self.interrupted => { self.interrupted = true; Err(std::io::Error::new(std::io::ErrorKind::Interrupted, "interrupted")) }
            _ => Err(std::io::Error::new(std::io::ErrorKind::Other, "scripted failure")),
        }
    }
    fn flush(&mut self) -> std::io::Result<()> { Ok(()) }
}
/// yields `data`, then an error
struct FailingReader { data: Vec<u8>, pos: usize }
impl Read for FailingReader {
    fn read(&mut self, buf: &mut [u8]) -> std::io::Result<usize> {
        if self.pos >= self.data.len() { return Err(std::io::Error::new(std::io::ErrorKind::Other, "scripted failure")); }
        let k = buf.len().min(self.data.len() - self.pos).min(7);
        buf[..k].copy_from_slice(&self.data[self.pos..self.pos + k]);
        self.pos += k;
        Ok(k)
    }
}

fn disturb_all(pool: &[Bdd], vs: &BddVariableSet, items: &str) -> Vec<String> {
    if items == "~" { return vec![]; }
    items.split(';').map(|item| catch(|| disturb(pool, vs, item)).unwrap_or_else(|| s("panic"))).collect()
}

/// one disturbance `kind:args`; the text says how it ended (`ok`, `err`, `none`; a panic is caught by the caller)
fn disturb(pool: &[Bdd], vs: &BddVariableSet, item: &str) -> String {
    let (kind, rest) = item.split_once(':').unwrap_or((item, ""));
    let a: Vec<&str> = if rest.is_empty() { vec![] } else { rest.split(',').collect() };
    let n = vs.num_vars() as usize;
    let pb = |r: &str| -> &Bdd { &pool[r[1..].parse::<usize>().unwrap() % pool.len()] };
    let res = |ok: bool| s(if ok { "ok" } else { "err" });
    match kind {
        // writer-taking functions into failing sinks: function b/s/d, mode z/e/i, bytes accepted before the failure
        "wf" => {
            let mut w = FailingWriter { accept: a[2].parse().unwrap(), mode: a[1].chars().next().unwrap(), written: 0, interrupted: false };
            let b = pb(a[3]);
            res(match a[0] { "b" => b.write_as_bytes(&mut w).is_ok(), "s" => b.write_as_string(&mut w).is_ok(), _ => b.write_as_dot_string(&mut w, vs, true).is_ok() })
        }
        // readers: t = good serialisation truncated to k bytes, g = garbage of k bytes, e = k good bytes then a read error
        "rf" => {
            let k: usize = a[2].parse().unwrap();
            let b = pb(a[3]);
            let good: Vec<u8> = if a[0] == "b" { b.to_bytes() } else { b.to_string().into_bytes() };
            let data: Vec<u8> = match a[1] {
                "t" => good[..k.min(good.len())].to_vec(),
                "g" => { let mut r = Rng64(k as u64); (0..k).map(|_| if a[0] == "b" { r.next() as u8 } else { b"|,0123456789x- \n"[r.below(17) as usize] }).collect() }
                _ => good[..k.min(good.len())].to_vec(),
            };
            if a[1] == "e" {
                let mut rd = FailingReader { data, pos: 0 };
                res(if a[0] == "b" { Bdd::read_as_bytes(&mut rd).is_ok() } else { Bdd::read_as_string(&mut rd).is_ok() })
            } else {
                res(if a[0] == "b" { Bdd::read_as_bytes(&mut &data[..]).is_ok() } else { Bdd::read_as_string(&mut &data[..]).is_ok() })
            }
        }
        // operations that panic by design
        "pn" => {
            let b = pb(a.get(1).copied().unwrap_or("p0"));
            match a[0] {
                "flip" => { Bdd::fused_binary_flip_op((b, Some(var(n + 3))), (b, None), None, op_function::and); }
                "flipout" => { Bdd::check_fused_binary_flip_op(1000, (b, None), (b, None), Some(var(n + 1)), op_function::or); }
                "mismatch" => { b.and(&BddVariableSet::new_anonymous(n as u16 + 1).mk_true()); }
                "mismatch3" => { Bdd::if_then_else(b, &BddVariableSet::new_anonymous(n as u16 + 2).mk_false(), b); }
                "rename" => { let mut c = b.clone(); unsafe { c.rename_variable(var(0), var(n + 5)); } }
                "rename2" => { let mut c = vs.eval_expression_string("x0 & x1"); unsafe { c.rename_variable(var(0), var(1)); } }
                "setnum" => { let mut c = vs.mk_var(var(n - 1)); unsafe { c.set_num_vars(0); } }
                "cnf" => { vs.mk_cnf(&[BddPartialValuation::from_values(&[(var(n + 2), true)]), BddPartialValuation::from_values(&[(var(0), false)])]); }
                "fromstr" => { Bdd::from_string("|3,0,0|3,1,1|x,0,1|"); }
                "frombytes" => { Bdd::from_bytes(&mut &[1u8, 2, 3][..]); }
                "evalunknown" => { vs.eval_expression_string("x0 & unknown_name"); }
                "evalparse" => { vs.eval_expression_string("x0 & & ("); }
                "mkvar" => { vs.mk_var_by_name("no such name"); }
                "toexpr" => { Bdd::from_string("|3,0,0|3,1,1|1,3,1|2,0,1|0,2,1|").to_boolean_expression(&BddVariableSet::new_anonymous(3)); }
                "pathiter" => { return Bdd::from_string("|2,0,0|2,1,1|1,1,1|0,0,2|").sat_clauses().take(20).count().to_string(); }
                "valuation" => { b.eval_in(&BddValuation::new(vec![true; n.saturating_sub(1)])); }
                // NOT included: `var_select` / `select` / `mk_literal` with a variable >= num_vars do not panic — `apply` never
                // terminates and allocates without bound (observed: 40 GB, OOM kill); reported as a finding, out of scope here
                "exists" => { b.var_exists(var(n + 7)); }
                "builderdup" => {
                    let mut builder = BddVariableSetBuilder::new();
                    builder.make_variable("a");
                    let dup = catch(|| { let mut b2 = builder.clone(); b2.make_variable("a"); });
                    let dup2 = catch(std::panic::AssertUnwindSafe(|| { builder.make_variable("a"); }));
                    builder.make_variable("b");
                    let set = builder.build();
                    return format!("{}{}{}", dup.is_some() as u8, dup2.is_some() as u8, set.num_vars());
                }
                "builderbad" => { let mut builder = BddVariableSetBuilder::new(); builder.make_variable("a&b"); }
                "newdup" => { BddVariableSet::new(&["a", "b", "a"]); }
                _ => panic!("unknown disturbance {}", item),
            }
            s("ok")
        }
        // limited operators that give up
        "ln" => {
            let (x, y) = (pb(a[0]), pb(a[1]));
            let r1 = Bdd::binary_op_with_limit(0, x, y, op_function::xor).is_none();
            let r2 = Bdd::check_binary_op(0, x, y, op_function::or).is_none();
            let r3 = Bdd::fused_binary_flip_op_with_limit(1, (x, Some(var(0))), (y, None), None, op_function::iff).is_none();
            format!("{}{}{}", r1 as u8, r2 as u8, r3 as u8)
        }
        // iterators consumed only partially and dropped
        "it" => {
            let k: usize = a[1].parse().unwrap();
            let b = pb(a[2]);
            match a[0] {
                "v" => b.sat_valuations().take(k).count(),
                "c" => b.sat_clauses().take(k).count(),
                "V" => b.clone().into_sat_valuations().take(k).count(),
                _ => b.clone().into_sat_clauses().take(k).count(),
            }.to_string()
        }
        // any instruction of the program language (results are dropped)
        "op" => match exec(pool, vs, &[], rest) { Ok(_) => s("ok"), Err(()) => s("stuck") },
        _ => panic!("unknown disturbance {}", item),
    }
}

/// counts the draws a callee makes on the generator it was given
struct Counting<R> { inner: R, draws: u64 }
impl<R: rand::RngCore> rand::RngCore for Counting<R> {
    fn next_u32(&mut self) -> u32 { self.draws += 1; self.inner.next_u32() }
    fn next_u64(&mut self) -> u64 { self.draws += 1; self.inner.next_u64() }
    fn fill_bytes(&mut self, dest: &mut [u8]) { self.draws += 1; self.inner.fill_bytes(dest) }
    fn try_fill_bytes(&mut self, dest: &mut [u8]) -> Result<(), rand::Error> { self.draws += 1; self.inner.try_fill_bytes(dest) }
}

// ---- name resolution (C19.names)

/// `%<hex code point>.` for white space, control characters and the separators of the case line
fn esc(x: &str) -> String {
    let mut out = String::new();
    for c in x.chars() {
        if c.is_whitespace() || c.is_control() || ",;%#/~".contains(c) { out.push_str(&format!("%{:x}.", c as u32)); } else { out.push(c); }
    }
    out
}
fn unesc(x: &str) -> String {
    let mut out = String::new();
    let mut it = x.chars();
    while let Some(c) = it.next() {
        if c == '%' {
            let hex: String = it.by_ref().take_while(|d| *d != '.').collect();
            out.push(char::from_u32(u32::from_str_radix(&hex, 16).unwrap()).unwrap());
        } else { out.push(c); }
    }
    out
}
fn esc_list(x: &str) -> Vec<String> { if x == "~" { vec![] } else { x.split(',').map(unesc).collect() } }

fn build_set(names: &[String], method: usize) -> BddVariableSet {
    let refs: Vec<&str> = names.iter().map(|x| x.as_str()).collect();
    match method {
        0 => BddVariableSet::new(&refs),
        1 => { let mut b = BddVariableSetBuilder::new(); b.make_variables(&refs); b.build() }
        2 => { let fresh = BddVariableSet::new(&refs); let copy = fresh.clone(); drop(fresh); copy }
        _ => BddVariableSet::from(names.to_vec()),
    }
}

/// one query `kind:argument` against set A (and set B for transfers)
fn name_query(sa: &BddVariableSet, sb: &BddVariableSet, q: &str) -> String {
    let (kind, arg) = q.split_once(':').unwrap_or((q, ""));
    let parse = |x: &str| BooleanExpression::try_from(x).ok();
    match kind {
        "v" => fmt_optvar(sa.var_by_name(arg).map(|v| v.to_index())),
        "mk" => fmt_bdd(&sa.mk_var_by_name(arg)),
        "nmk" => fmt_bdd(&sa.mk_not_var_by_name(arg)),
        "safe" => match parse(arg) { None => s("parse-err"), Some(e) => fmt_opt_bdd(&sa.safe_eval_expression(&e)) },
        "evs" => fmt_bdd(&sa.eval_expression_string(arg)),
        // the expression is evaluated in B, the result is transferred into A (`tr`) — or the other way round (`trb`)
        "tr" | "trb" => {
            let (from, to) = if kind == "tr" { (sb, sa) } else { (sa, sb) };
            match parse(arg) {
                None => s("parse-err"),
                Some(e) => match from.safe_eval_expression(&e) { None => s("src-none"), Some(b) => fmt_opt_bdd(&to.transfer_from(&b, from)) },
            }
        }
        _ => panic!("unknown query {}", q),
    }
}

// ------------------------------------------------------------------------------------------------
// generators

fn gen_vars(rng: &mut Rng64, n: usize) -> String {
    let k = rng.below(4) as usize;
    let v: Vec<String> = (0..k).map(|_| rng.below(n as u64).to_string()).collect();
    if v.is_empty() { s("~") } else { v.join(".") }
}
fn gen_pv(rng: &mut Rng64, n: usize) -> String {
    let mut v: Vec<String> = vec![];
    for i in 0..n { if rng.chance(1, 3) { v.push(format!("{}={}", i, rng.below(2))); } }
    // `select`/`restrict` accept any order
    if v.len() > 1 && rng.bool() { v.reverse(); }
    if v.is_empty() { s("~") } else { v.join(".") }
}
fn gen_bits(rng: &mut Rng64, n: usize) -> String { fmt_bools(&(0..n).map(|_| rng.bool()).collect::<Vec<_>>()) }
fn gen_expr(rng: &mut Rng64, n: usize, depth: u32) -> String {
    if depth == 0 || rng.chance(1, 4) {
        return match rng.below(8) { 0 => s("true"), 1 => s("false"), _ => format!("x{}", rng.below(n as u64)) };
    }
    match rng.below(6) {
        0 => format!("!{}", gen_expr(rng, n, depth - 1)),
        k => format!("({}{}{})", gen_expr(rng, n, depth - 1), ["&", "|", "^", "=>", "<=>"][(k - 1) as usize], gen_expr(rng, n, depth - 1)),
    }
}

const BIN: [&str; 6] = ["and", "or", "xor", "imp", "iff", "and_not"];
const UN_B: [&str; 7] = ["not", "dnf_rt", "odnf_rt", "cnf_rt", "str_rt", "bytes_rt", "expr_rt"];
const UN_T: [&str; 26] = ["to_dnf", "to_cnf", "to_odnf", "sat_clauses", "sat_vals", "to_string", "to_bytes", "expr_text", "expr_support",
    "card", "clause_card", "fcard", "witness", "first_val", "last_val", "most_pos", "most_neg", "first_clause", "last_clause",
    "most_fixed", "most_free", "necessary", "support", "size_per_var", "props", "transfer"];

fn gen_limit(rng: &mut Rng64) -> u64 {
    match rng.below(7) { 0 => 0, 1 => 1, 2 => 2, 3 => 3, 4 | 5 => 4 + rng.below(20), _ => 1_000_000 }
}
fn gen_optvar(rng: &mut Rng64, n: usize) -> String { if rng.bool() { s("-") } else { rng.below(n.max(1) as u64).to_string() } }
/// one dry run or size-limited operator; `r` draws an operand reference
fn gen_limited(rng: &mut Rng64, n: usize, r: &dyn Fn(&mut Rng64) -> String) -> (String, bool) {
    let name = *rng.pick(&BIN);
    let lim = gen_limit(rng);
    match rng.below(9) {
        0..=2 => (format!("check:{},{},{},{}", name, lim, r(rng), r(rng)), false),
        3..=4 => (format!("check_flip:{},{},{},{},{},{},{}", name, lim, r(rng), gen_optvar(rng, n), r(rng), gen_optvar(rng, n), gen_optvar(rng, n)), false),
        5..=6 => (format!("lim:{},{},{},{}", name, lim, r(rng), r(rng)), true),
        7 => (format!("lim_flip:{},{},{},{},{},{},{}", name, lim, r(rng), gen_optvar(rng, n), r(rng), gen_optvar(rng, n), gen_optvar(rng, n)), true),
        _ => (format!("flip:{},{},{},{},{},{}", name, r(rng), gen_optvar(rng, n), r(rng), gen_optvar(rng, n), gen_optvar(rng, n)), true),
    }
}

/// a random program of `len` instructions over a pool of `pool_len` Bdds with `n` variables
fn gen_prog(rng: &mut Rng64, n: usize, pool_len: usize, len: usize) -> String {
    let mut is_bdd: Vec<bool> = vec![];
    let mut out: Vec<String> = vec![];
    while out.len() < len {
        let bdd_locals: Vec<usize> = (0..is_bdd.len()).filter(|i| is_bdd[*i]).collect();
        let r = |rng: &mut Rng64| -> String {
            let dangling = is_bdd.len() + 3;
            if rng.chance(1, 150) { return format!("l{}", dangling); }           // dangling reference
            if !bdd_locals.is_empty() && rng.bool() { format!("l{}", rng.pick(&bdd_locals)) }
            else if pool_len == 0 { s("p0") } else { format!("p{}", rng.below(pool_len as u64)) }
        };
        let v = |rng: &mut Rng64| rng.below(n.max(1) as u64).to_string();
        let choice = rng.below(23);
        if choice >= 20 {
            // a burst of dry runs / size-limited operators in a row on the same thread
            let burst: Vec<(String, bool)> = (0..(2 + rng.below(4))).map(|_| gen_limited(rng, n, &r)).collect();
            for (ins, b) in burst { out.push(ins); is_bdd.push(b); }
            continue;
        }
        let (ins, b) = match choice {
            0..=4 => (format!("{}:{},{}", rng.pick(&BIN), r(rng), r(rng)), true),
            5 => (format!("ite:{},{},{}", r(rng), r(rng), r(rng)), true),
            6..=7 => (format!("{}:{}", rng.pick(&UN_B), r(rng)), true),
            8 => (format!("{}:{},{}", rng.pick(&["exists", "for_all", "project", "pick"]), r(rng), gen_vars(rng, n.max(1))), true),
            9 => (format!("{}:{},{}", rng.pick(&["var_exists", "var_for_all", "var_project", "var_pick"]), r(rng), v(rng)), true),
            10 => (format!("{}:{},{}", rng.pick(&["select", "restrict"]), r(rng), gen_pv(rng, n)), true),
            11 => (format!("{}:{},{},{}", rng.pick(&["var_select", "var_restrict"]), r(rng), v(rng), rng.below(2)), true),
            12 => (format!("substitute:{},{},{}", r(rng), v(rng), r(rng)), true),
            13 => match rng.below(4) {
                0 => (format!("and_exists:{},{},{}", r(rng), r(rng), gen_vars(rng, n.max(1))), true),
                1 => (format!("imp_for_all:{},{},{}", r(rng), r(rng), gen_vars(rng, n.max(1))), true),
                2 => (format!("pick_random:{},{},{}", r(rng), gen_vars(rng, n.max(1)), gen_bits(rng, 6)), true),
                _ => (format!("cmp:{},{}", r(rng), r(rng)), false),
            },
            14 => match rng.below(6) {
                0 => (format!("evalstr:{}", gen_expr(rng, n.max(1), 3)), true),
                1 => (format!("mk_var:{}", v(rng)), true),
                2 => (format!("mk_exactly_k:{},{}", rng.below(3), gen_vars(rng, n.max(1))), true),
                3 => (format!("mk_up_to_k:{},{}", rng.below(3), gen_vars(rng, n.max(1))), true),
                4 => (format!("mk_clause:{}", gen_pv(rng, n)), true),
                _ => (format!("of_valuation:{}", gen_bits(rng, n)), true),
            },
            15 => match rng.below(4) {
                0 => (format!("eval:{},{}", r(rng), gen_bits(rng, n)), false),
                1 => (format!("random_val:{},{}", r(rng), gen_bits(rng, n + 2)), false),
                2 => (format!("random_clause:{},{}", r(rng), gen_bits(rng, n + 2)), false),
                _ => (format!("dot:{},{}", r(rng), rng.below(2)), false),
            },
            16 => (format!("names:{}", rng.below(n as u64 + 2)), false),
            _ => { let name = *rng.pick(&UN_T); (format!("{}:{}", name, r(rng)), name == "transfer") }
        };
        out.push(ins);
        is_bdd.push(b);
    }
    if out.is_empty() { s("~") } else { out.join(";") }
}

fn gen_pool(rng: &mut Rng64, n: usize, len: usize) -> String {
    let mut v: Vec<String> = vec![];
    for i in 0..len {
        let mut b = match rng.below(10) {
            0 => bdd_of_tt(n, &vec![false; 1 << n]),
            1 => bdd_of_tt(n, &vec![true; 1 << n]),
            _ => random_bdd(rng, n),
        };
        if rng.chance(1, 6) { b = noncanon_variant(rng, &b); }
        // rarely an element over another variable count: operations on it panic, in every run alike
        if i > 0 && rng.chance(1, 40) { b = random_bdd(rng, n + 1); }
        v.push(fmt_bdd(&b));
    }
    if v.is_empty() { s("~") } else { v.join("/") }
}

const REP_OPS: [&str; 27] = ["to_odnf", "to_dnf", "to_cnf", "sat_clauses", "sat_vals", "support", "size_per_var", "expr_text", "expr_support",
    "dot:p0,0", "dot:p0,1", "witness", "first_val", "last_val", "most_pos", "most_neg", "first_clause", "last_clause", "most_fixed", "most_free",
    "necessary", "card", "clause_card", "fcard", "to_string", "to_bytes", "props"];

/// a truth table with common cores: `f = g ∨ (lit ∧ h)` / `g ∧ (lit ∨ h)` style combinations, so that `∀x. f` is a
/// non-trivial common core for several variables x, or a plain random table
fn core_tt(rng: &mut Rng64, n: usize) -> TT {
    let size = 1usize << n;
    let bit = |i: usize, k: usize| (i >> (n - 1 - k)) & 1 == 1;
    match rng.below(5) {
        0 => (0..size).map(|_| rng.bool()).collect(),
        1 => random_tt(rng, n),
        _ => {
            // core g ignores one or two variables; extra terms depend on them
            let (k1, k2) = (rng.below(n as u64) as usize, rng.below(n as u64) as usize);
            let raw: Vec<bool> = (0..size).map(|_| rng.chance(1, 3)).collect();
            let mask = !((1usize << (n - 1 - k1)) | (1usize << (n - 1 - k2)));
            let g: Vec<bool> = (0..size).map(|i| raw[i & mask]).collect();
            let h1: Vec<bool> = (0..size).map(|_| rng.chance(1, 3)).collect();
            let h2: Vec<bool> = (0..size).map(|_| rng.chance(1, 3)).collect();
            let (p1, p2, conj) = (rng.bool(), rng.bool(), rng.chance(1, 4));
            (0..size).map(|i| {
                let extra = (bit(i, k1) == p1 && h1[i]) || (bit(i, k2) == p2 && h2[i]);
                if conj { g[i] && !extra } else { g[i] || extra }
            }).collect()
        }
    }
}

/// the reference panel: serialisers (also into accepting sinks), readers of good input, Boolean / relational operators,
/// counts, normal forms, enumeration, parser + evaluation, dot export
fn panel(n: usize, pool_len: usize) -> String {
    let q = format!("p{}", pool_len - 1);
    let v = n - 1;
    [s("to_bytes:p0"), s("to_string:p0"), s("wbytes:p0"), s("wstring:p0"), s("wdot:p0,1"), format!("to_bytes:{}", q), format!("wbytes:{}", q),
     format!("wstring:{}", q), format!("wdot:{},0", q), s("rbytes:p1"), s("rstring:p1"), s("bytes_rt:p1"), s("str_rt:p1"),
     format!("and:p0,{}", q), format!("or:p1,{}", q), s("not:p1"), format!("exists:p1,{}", v), format!("restrict:p1,{}=1", v), s("pick:p1,0"),
     s("card:p1"), s("to_dnf:p1"), s("to_odnf:p1"), s("sat_vals:p1"), s("sat_clauses:p1"), format!("evalstr:(x0=>!x{})", v), s("expr_text:p1"),
     s("dot:p1,0"), s("to_bytes:l14"), s("wbytes:l13"), s("to_string:l16"), s("wstring:l15"), s("witness:p1"), s("support:p1")].join(";")
}

/// every disturbance once (pool references p0, p1, p2)
fn all_disturbances(n: usize) -> Vec<String> {
    let mut d: Vec<String> = vec![];
    for f in ["b", "s", "d"] { for m in ["z", "e", "i"] { for pos in [0usize, 7] { for b in ["p0", "p1"] { d.push(format!("wf:{},{},{},{}", f, m, pos, b)); } } } }
    for f in ["b", "s"] { for k in ["t", "g", "e"] { for len in [3usize, 14] { d.push(format!("rf:{},{},{},p1", f, k, len)); } } }
    for k in ["flip", "flipout", "mismatch", "mismatch3", "rename", "setnum", "cnf", "fromstr", "frombytes", "evalunknown", "evalparse", "mkvar", "toexpr",
        "pathiter", "valuation", "exists", "builderdup", "builderbad", "newdup"] { d.push(format!("pn:{},p1", k)); }
    if n >= 2 { d.push(s("pn:rename2,p1")); }
    d.push(s("ln:p1,p2")); d.push(s("ln:p0,p0"));
    for k in ["v", "c", "V", "C"] { d.push(format!("it:{},1,p1", k)); d.push(format!("it:{},0,p2", k)); }
    for op in ["lim:and,0,p1,p2", "check:or,1,p1,p1", "transfer:p1", "expr_rt:p1", "substitute:p1,0,p1", "flip:and,p1,99,p1,-,-", "evalstr:(x0&nope)", "mk_clause:77=1"] { d.push(format!("op:{}", op)); }
    d
}

fn gen_pool_n(rng: &mut Rng64, n: usize, len: usize) -> String {
    (0..len).map(|_| {
        let mut b = match rng.below(8) { 0 => bdd_of_tt(n, &vec![false; 1 << n]), 1 => bdd_of_tt(n, &vec![true; 1 << n]), _ => bdd_of_tt(n, &core_tt(rng, n)) };
        if rng.chance(1, 8) { b = noncanon_variant(rng, &b); }
        fmt_bdd(&b)
    }).collect::<Vec<_>>().join("/")
}

/// one `C19.rng` case: a diagram with `gaps.len() - 1` decision levels, `gaps[0]` free variables before the first level,
/// `gaps[j]` between level j-1 and level j, `gaps[last]` after the last level; a random non-false function of the levels
fn gap_case(rng: &mut Rng64, gaps: &[usize], r: usize) -> Vec<String> {
    let k = gaps.len() - 1;
    let mut pos: Vec<usize> = vec![];
    let mut at = 0usize;
    for j in 0..k { at += gaps[j]; pos.push(at); at += 1; }
    let n = at + gaps[k];
    let mut tt: TT = if rng.chance(1, 4) { vec![true; 1 << k] } else { (0..(1usize << k)).map(|_| rng.chance(2, 3)).collect() };
    if k > 0 && rng.chance(1, 3) { tt = (0..(1usize << k)).map(|i| i == (1 << k) - 1).collect(); }      // the conjunction of all levels
    if tt.iter().all(|b| !*b) { tt[0] = true; }
    let nodes: Vec<(usize, usize, usize)> = canon_triples(k, &tt).into_iter().map(|(v, l, h)| (if v == k { n } else { pos[v] }, l, h)).collect();
    // variables to pick: tested ones, free ones inside gaps, repeated ones
    let mut vars: Vec<String> = vec![];
    if n > 0 {
        for _ in 0..(1 + rng.below(3)) {
            let v = if !pos.is_empty() && rng.bool() { *rng.pick(&pos) } else { rng.below(n as u64) as usize };
            vars.push(v.to_string());
        }
    }
    let coins: Vec<bool> = (0..n + 8).map(|_| rng.bool()).collect();
    vec![fmt_triples(&nodes), if vars.is_empty() { s("~") } else { vars.join(".") }, r.to_string(), rng.next().to_string(), fmt_bools(&coins)]
}

const BASE_NAMES: [&str; 24] = ["Erk", "Mek", "p53", "x", "a", "var", "gene_1", "Raf", "AKT", "mTOR", "tgfb", "Ras", "k", "Kinase", "fi", "strasse",
    "cafe", "v10", "node", "I", "ab", "xy", "Cdc25", "e"];

/// names "similar" to `base`: case variants, prefix/suffix/underscore/digit, white space around, Unicode look-alikes
/// and normalisation variants, one character changed / dropped / doubled / transposed
fn similar(rng: &mut Rng64, base: &str) -> String {
    let chars: Vec<char> = base.chars().collect();
    let pos = rng.below(chars.len().max(1) as u64) as usize;
    let with = |i: usize, f: &dyn Fn(char) -> String| -> String {
        chars.iter().enumerate().map(|(j, c)| if i == j { f(*c) } else { c.to_string() }).collect()
    };
    let lookalike = |c: char| -> String {
        match c {
            'a' => "\u{430}", 'e' => "\u{435}", 'o' => "\u{43e}", 'p' => "\u{440}", 'c' => "\u{441}", 'x' => "\u{445}", 'y' => "\u{443}", 'i' => "\u{456}",
            'A' => "\u{391}", 'E' => "\u{395}", 'K' => "\u{212a}", 'M' => "\u{39c}", 'T' => "\u{3a4}", 'R' => "\u{211d}", 'I' => "\u{406}", 'k' => "\u{138}",
            '1' => "l", '0' => "O", 'f' => "\u{17f}", 's' => "\u{17f}", 'v' => "\u{3bd}", 'n' => "\u{578}", 'r' => "\u{433}", 'd' => "\u{501}", 'g' => "\u{261}",
            _ => return format!("{}\u{301}", c),
        }.to_string()
    };
    match rng.below(30) {
        0 => base.to_uppercase(),
        1 => base.to_lowercase(),
        2 => with(0, &|c| c.to_uppercase().collect::<String>() ),
        3 => with(0, &|c| c.to_lowercase().collect::<String>()),
        4 => with(pos, &|c| if c.is_uppercase() { c.to_lowercase().collect::<String>() } else { c.to_uppercase().collect::<String>() }),
        5 => format!("_{}", base),
        6 => format!("{}_", base),
        7 => format!("{}{}", base, rng.below(10)),
        8 => format!("{}{}", ["x", "v", "n", "the", "NOT"][rng.below(5) as usize], base),
        9 => format!("{}{}", base, ["'", ".", "-1", "_1", "+", "*", "[0]", "{}"][rng.below(8) as usize]),
        10 => format!("{} ", base),
        11 => format!(" {}", base),
        12 => format!("{}\u{a0}", base),
        13 => format!("\t{}", base),
        14 => with(pos, &lookalike),
        15 => with(0, &lookalike),
        16 => format!("{}\u{200b}", base),                    // zero-width space (not White_Space)
        17 => base.chars().map(|c| char::from_u32(c as u32 + 0xFEE0).filter(|_| c.is_ascii_graphic()).unwrap_or(c)).collect(), // full width
        18 => base.replace("fi", "\u{fb01}").replace("ss", "\u{df}").replace("e", "e\u{301}"),
        19 => base.replace("e", "\u{e9}").replace("I", "\u{130}").replace("i", "\u{131}"),
        20 => with(pos, &|c| char::from_u32(c as u32 + 1).unwrap_or(c).to_string()),
        21 => with(pos, &|_| String::new()),
        22 => with(pos, &|c| format!("{}{}", c, c)),
        23 => { let mut v = chars.clone(); if v.len() > 1 { let i = pos.min(v.len() - 2); v.swap(i, i + 1); } v.into_iter().collect() }
        24 => base.trim().to_string(),
        25 => base.trim_matches('_').to_string(),
        26 => base.replace('_', ""),
        27 => base.replace('_', "-"),
        28 => format!("{}{}", base, base),
        _ => with(pos, &|c| if c.is_ascii_digit() { ((c as u8 - b'0' + 1) % 10).to_string() } else { format!("{}0", c) }),
    }
}
fn usable_name(x: &str) -> bool {
    !x.is_empty() && x != "true" && x != "false" && !x.chars().any(|c| "!&|^=<>()?:".contains(c))
}
/// names the expression parser reads back as one identifier
fn parser_safe(x: &str) -> bool { usable_name(x) && !x.chars().any(|c| c.is_whitespace()) }

fn name_expr(rng: &mut Rng64, atoms: &[String], depth: u32) -> String {
    if depth == 0 || rng.chance(1, 3) { return rng.pick(atoms).clone(); }
    match rng.below(7) {
        0 => format!("!{}", name_expr(rng, atoms, depth - 1)),
        1 => format!("({} ? {} : {})", name_expr(rng, atoms, depth - 1), name_expr(rng, atoms, depth - 1), name_expr(rng, atoms, depth - 1)),
        k => format!("({} {} {})", name_expr(rng, atoms, depth - 1), ["&", "|", "^", "=>", "<=>"][(k - 2) as usize], name_expr(rng, atoms, depth - 1)),
    }
}

/// one `C19.names` case: two variable sets with groups of similar names and queries over known and similar-unknown names
fn gen_names_case(rng: &mut Rng64, k: usize) -> Vec<String> {
    let mut names_a: Vec<String> = vec![];
    let push = |v: &mut Vec<String>, x: String| if usable_name(&x) && !v.contains(&x) && v.len() < 12 { v.push(x) };
    for _ in 0..(1 + rng.below(3)) {
        let base = rng.pick(&BASE_NAMES).to_string();
        if rng.chance(3, 4) { push(&mut names_a, base.clone()); }
        for _ in 0..(1 + rng.below(4)) {
            let mut x = similar(rng, &base);
            if rng.chance(1, 6) { x = similar(rng, &x); }
            push(&mut names_a, x);
        }
    }
    for _ in 0..rng.below(3) { push(&mut names_a, rng.pick(&BASE_NAMES).to_string()); }
    if names_a.is_empty() { names_a.push(s("Erk")); names_a.push(s("ERK")); }
    // shuffle
    for i in (1..names_a.len()).rev() { let j = rng.below(i as u64 + 1) as usize; names_a.swap(i, j); }
    // B: the same names in another order, some replaced by similar ones, some dropped, some added
    let mut names_b: Vec<String> = vec![];
    for x in &names_a {
        match rng.below(6) {
            0 => {}
            1 | 2 => { let y = similar(rng, x); push(&mut names_b, y); if rng.bool() { push(&mut names_b, x.clone()); } }
            _ => push(&mut names_b, x.clone()),
        }
    }
    if rng.bool() { names_b.reverse(); } else if rng.bool() { names_b.sort(); }
    // queries
    let mut unknown: Vec<String> = vec![];
    for x in names_a.iter().chain(names_b.iter()) {
        for _ in 0..2 {
            let y = similar(rng, x);
            if !y.contains(':') && !names_a.contains(&y) && !unknown.contains(&y) && unknown.len() < 14 { unknown.push(y); }
        }
    }
    for y in ["", "erk", "ERK", "true", "x_0"] { if rng.chance(1, 4) && !names_a.contains(&s(y)) && !unknown.contains(&s(y)) { unknown.push(s(y)); } }
    let mut q: Vec<String> = vec![];
    for x in &names_a { q.push(format!("v:{}", x)); }
    for x in &unknown { q.push(format!("v:{}", x)); }
    for x in names_a.iter().chain(unknown.iter()) { if rng.chance(1, 3) { q.push(format!("{}:{}", if rng.bool() { "mk" } else { "nmk" }, x)); } }
    let known_atoms: Vec<String> = names_a.iter().filter(|x| parser_safe(x)).cloned().collect();
    let b_atoms: Vec<String> = names_b.iter().filter(|x| parser_safe(x)).cloned().collect();
    let mut mixed: Vec<String> = known_atoms.clone();
    mixed.extend(unknown.iter().filter(|x| parser_safe(x)).cloned());
    mixed.push(s("true"));
    for atoms in [&known_atoms, &mixed, &mixed] {
        if atoms.is_empty() { continue; }
        for _ in 0..3 {
            let e = name_expr(rng, atoms, 2);
            q.push(format!("{}:{}", if rng.bool() { "safe" } else { "evs" }, e));
        }
        for x in atoms.iter().take(6) { if rng.chance(1, 2) { q.push(format!("safe:{}", x)); } }
    }
    let mut both: Vec<String> = b_atoms.clone();
    both.extend(known_atoms.iter().cloned());
    if !both.is_empty() {
        for _ in 0..5 { q.push(format!("{}:{}", if rng.chance(2, 3) { "tr" } else { "trb" }, name_expr(rng, &both, 2))); }
        for x in both.iter().take(8) { q.push(format!("{}:{}", if rng.bool() { "tr" } else { "trb" }, x)); }
    }
    let join = |v: &[String], sep: &str| if v.is_empty() { s("~") } else { v.iter().map(|x| esc(x)).collect::<Vec<_>>().join(sep) };
    vec![k.to_string(), join(&names_a, ","), join(&names_b, ","), join(&q, ";")]
}

/// The runner's search for a failing input after a broken tie runs the thorough generators with VERIF_CASE_CAP set;
/// the case count says little about the time of multi-threaded cases with child processes, so in that mode every
/// stream is cut to a fifth and the whole generation to VERIF_C19_SEARCH_SECS seconds (default 110).
fn search_mode() -> bool { std::env::var("VERIF_CASE_CAP").is_ok() }
static START: std::sync::OnceLock<std::time::Instant> = std::sync::OnceLock::new();
fn search_over() -> bool {
    let start = *START.get_or_init(std::time::Instant::now);
    let budget: u64 = std::env::var("VERIF_C19_SEARCH_SECS").ok().and_then(|x| x.parse().ok()).unwrap_or(110);
    search_mode() && start.elapsed().as_secs() >= budget
}

pub fn gen(tier: Tier, rng: &mut Rng64, out: &mut Out) {
    let thorough = tier == Tier::Thorough;
    let _ = search_over();                                  // starts the clock
    let div: u64 = if search_mode() { 5 } else { 1 };      // thorough counts below are divided by this
    run("C19.types", &[s("Bdd,BddVariableSet,BddValuation,BddPartialValuation,BddVariable,BddPointer,BddNode,BooleanExpression,iterators")], out);
    // every operation of the menu at least once, two threads running the same program
    for n in [1usize, 3, 5] {
        let pool = gen_pool(rng, n, 4);
        let mut all: Vec<String> = vec![];
        for name in BIN { all.push(format!("{}:p0,p1", name)); }
        all.push(s("ite:p0,p1,p2"));
        for name in UN_B { all.push(format!("{}:p3", name)); }
        for name in UN_T { all.push(format!("{}:l0", name)); }
        for name in ["exists", "for_all", "project", "pick"] { all.push(format!("{}:p2,0", name)); }
        for name in ["var_exists", "var_for_all", "var_project", "var_pick"] { all.push(format!("{}:l1,0", name)); }
        all.extend([s("select:p0,0=1"), s("restrict:p1,0=0"), s("var_select:p2,0,1"), s("var_restrict:p3,0,0"), s("substitute:p0,0,p1"),
            s("and_exists:p0,p1,0"), s("imp_for_all:p2,p3,0"), s("pick_random:p0,0,0101"), s("cmp:p0,p1"), s("evalstr:(x0=>!x0)"),
            s("mk_var:0"), s("mk_exactly_k:1,0"), s("mk_up_to_k:1,0"), s("mk_clause:0=1"), format!("of_valuation:{}", "1".repeat(n)),
            format!("eval:p0,{}", "0".repeat(n)), s("random_val:p1,010101010"), s("random_clause:p2,101010101"), s("dot:p3,1"), s("names:0"), s("not:l99"),
            s("check:and,0,p0,p1"), s("check:or,2,p0,p1"), s("check:xor,1000000,p2,p1"), s("check_flip:and,1,p0,0,p1,-,0"), s("check_flip:iff,1000000,p0,-,p1,0,-"),
            s("lim:and,0,p0,p1"), s("lim:or,3,p0,p1"), s("lim:xor,1000000,p0,p1"), s("lim_flip:imp,2,p0,0,p1,-,-"), s("lim_flip:and_not,1000000,p0,-,p1,0,0"),
            s("flip:and,p0,0,p1,-,-"), s("flip:xor,p0,-,p1,-,0")]);
        let prog = all.join(";");
        run("C19.run", &[n.to_string(), pool, format!("{}/{}", prog, prog)], out);
    }
    // ---- history independence: a fixed panel of reference operations on a fresh thread, after a disturbance (calls that
    //      FAIL: refusing sinks, bad input, panics by design, limited operators giving up, dropped iterators), after
    //      disturbance-panel-disturbance-panel, and on this thread
    let small = s("|2,0,0|/|2,0,0|2,1,1|1,0,1|0,0,2|/|2,0,0|2,1,1|");
    for d in all_disturbances(2) {
        run("C19.hist", &[s("2"), small.clone(), d.clone(), panel(2, 3)], out);
        if thorough || rng.chance(1, 2) {
            let n = 3 + rng.below(3) as usize;
            run("C19.hist", &[n.to_string(), gen_pool_n(rng, n, 3), d.replace("p2", "p1"), panel(n, 3)], out);
        }
    }
    for _ in 0..(if thorough { 3000 / div } else { 220 }) {
        if search_over() { break; }
        let n = 1 + rng.below(6) as usize;
        let pool_len = 2 + rng.below(2) as usize;
        let all = all_disturbances(n);
        let k = 1 + rng.below(4) as usize;
        let mut d: Vec<String> = (0..k).map(|_| rng.pick(&all).clone()).collect();
        // random positions for the failing sinks / truncations
        for x in d.iter_mut() {
            if x.starts_with("wf:") || x.starts_with("rf:") {
                let mut f: Vec<String> = x.split(',').map(|y| y.to_string()).collect();
                f[2] = match rng.below(4) { 0 => s("0"), 1 => s("1"), 2 => (5 + rng.below(10)).to_string(), _ => (rng.below(60)).to_string() };
                *x = f.join(",");
            }
        }
        let d: Vec<String> = d.into_iter().map(|x| x.replace("p2", &format!("p{}", pool_len - 1))).collect();
        run("C19.hist", &[n.to_string(), gen_pool_n(rng, n, pool_len), d.join(";"), panel(n, pool_len)], out);
    }
    // ---- everything that takes a caller-supplied generator, on diagrams with long runs of free variables
    for case in [gap_case(rng, &[0, 64, 0], 8), gap_case(rng, &[0, 64], 8), gap_case(rng, &[64], 8), gap_case(rng, &[0, 63, 0], 8), gap_case(rng, &[63], 8)] {
        run("C19.rng", &case, out);
    }
    for i in 0..(if thorough { 3000 / div } else { 260 }) {
        if search_over() { break; }
        let levels = rng.below(5) as usize;                 // decision levels; gaps before, between and after them
        let gaps: Vec<usize> = (0..=levels).map(|j| {
            if i % 3 == 0 && j > 0 { return rng.below(3) as usize; }
            match rng.below(16) { 0 | 1 => 0, 2 => 1, 3 => 31, 4 => 32, 5 => 33, 6 => 63, 7 | 8 => 64, 9 => 65, 10 => 127, 11 => 128, 12 => 129,
                13 => if rng.chance(1, 3) { 1000 } else { 200 }, _ => rng.below(4) as usize }
        }).collect();
        let case = gap_case(rng, &gaps, if i % 5 == 0 { 12 } else { 8 });
        run("C19.rng", &case, out);
    }
    // ---- name resolution on freshly built variable sets with groups of similar names
    run("C19.names", &[s("16"), s("Erk,ERK"), s("ERK,Erk,erk"), ["v:Erk", "v:ERK", "v:erk", "v:Erk ", "mk:erk", "safe:(Erk & !ERK)", "safe:erk", "evs:(erk | Erk)", "tr:(Erk & erk)", "tr:ERK", "trb:ERK"].iter().map(|x| esc(x)).collect::<Vec<_>>().join(";")], out);
    for i in 0..(if thorough { 5000 / div } else { 450 }) {
        if search_over() { break; }
        let k = if i % 8 == 0 { 32 } else { 16 };
        let case = gen_names_case(rng, k);
        run("C19.names", &case, out);
    }
    // ---- repetition of the operations whose result is not a Bdd: clause lists (the ORDER of the list is observed),
    //      sorted support sets, expression text, dot text, witnesses, counts — each evaluated `reps` times in this thread,
    //      on `reps` fresh threads and `reps` times in a child process; functions with common cores give the DNF
    //      optimiser real choices
    let rep_prog = REP_OPS.iter().map(|x| if x.contains(':') { x.to_string() } else { format!("{}:p0", x) }).collect::<Vec<_>>().join(";");
    let reps = s("8");
    let rep_case = |b: &Bdd, n: usize, out: &mut Out| run("C19.rep", &[n.to_string(), fmt_bdd(b), rep_prog.clone(), reps.clone()], out);
    for t in 0..256u64 {
        if (thorough && div == 1) || t % 2 == 0 { rep_case(&bdd_of_tt(3, &tt_from_index(3, t)), 3, out); }
    }
    for _ in 0..(if thorough { 6000 / div } else { 360 }) {
        if search_over() { break; }
        let n = 4 + (rng.below(6) as usize) / 3 + (rng.below(6) as usize) / 4;     // 4 mostly, 5, 6
        rep_case(&bdd_of_tt(n, &core_tt(rng, n)), n, out);
    }
    // ---- dry runs and size-limited operators only, several in a row on every thread
    for _ in 0..(if thorough { 4000 / div } else { 300 }) {
        if search_over() { break; }
        let n = 3 + rng.below(6) as usize;
        let pool_len = 2 + rng.below(3) as usize;
        let pool: Vec<String> = (0..pool_len).map(|_| fmt_bdd(&bdd_of_tt(n, &core_tt(rng, n)))).collect();
        let threads = 2 + rng.below(3) as usize;
        let progs: Vec<String> = (0..threads).map(|_| {
            let len = 4 + rng.below(10);
            let mut is_bdd: Vec<bool> = vec![];
            let mut out: Vec<String> = vec![];
            for _ in 0..len {
                let locals: Vec<usize> = (0..is_bdd.len()).filter(|i| is_bdd[*i]).collect();
                let r = |rng: &mut Rng64| if !locals.is_empty() && rng.chance(1, 4) { format!("l{}", rng.pick(&locals)) } else { format!("p{}", rng.below(pool_len as u64)) };
                let (ins, b) = gen_limited(rng, n, &r);
                out.push(ins);
                is_bdd.push(b);
            }
            out.join(";")
        }).collect();
        run("C19.run", &[n.to_string(), pool.join("/"), progs.join("/")], out);
    }
    let rounds = if thorough { 24000 / div } else { 1000 };
    for round in 0..rounds {
        if out.full() || search_over() { break; }
        let n = 1 + rng.below(8) as usize;
        let pool_len = 1 + rng.below(6) as usize;
        let pool = gen_pool(rng, n, pool_len);
        let threads = match round % 4 { 0 => 2, 1 => 2 + rng.below(3), 2 => 4 + rng.below(5), _ => 8 + rng.below(9) } as usize;
        let max_len = if thorough { 24 } else { 12 };
        // threads run different programs, or all the same one (maximal contention on the same operands)
        let same = rng.chance(1, 5);
        let first_len = 1 + rng.below(max_len) as usize;
        let first = gen_prog(rng, n, pool_len, first_len);
        let progs: Vec<String> = (0..threads).map(|i| {
            if same || (i > 0 && rng.chance(1, 6)) { first.clone() } else {
                let len = if rng.chance(1, 30) { 0 } else { 1 + rng.below(max_len) as usize };
                gen_prog(rng, n, pool_len, len)
            }
        }).collect();
        run("C19.run", &[n.to_string(), pool, progs.join("/")], out);
    }
}

fn main() {
    let args: Vec<String> = std::env::args().collect();
    if args.len() >= 2 && args[1] == "single" { single(); return; }
    harness_main(gen, run)
}
