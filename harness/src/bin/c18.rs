//! C18: valuation types and comparators obey their equality / ordering contracts.
//!
//! A *history* is a `.`-separated list of operations applied to `BddPartialValuation::empty()` (`~` = none):
//!   s<x>=<b>   set_value(x, b)            u<x>      unset_value(x)
//!   i<x>=<c>   p[x] = c  (IndexMut; c in 0,1,-)      r  p = from_values(&p.to_values())
//!   T<bits>    p = BddPartialValuation::from(BddValuation::new(bits))   (T~ = no variables)
//!
//! Case kinds (inputs => observed):
//!   C18.pv <k> <h1> <h2>  => get1 idx1 vals1 card1 last1 empty1 try1  get2 idx2 vals2 card2 last2 empty2 try2
//!                            eq12 eq21 hasheq ext12 ext21 back1 back2
//!        (get/idx over the variables 0..k; tryN = `err` or the bits; backN = from(try_from(pN)) == pN or `-`)
//!   C18.conv <bits>       => partial-values try-roundtrip bdd eval card witness is_valuation
//!   C18.ext <bits> <h>    => total.extends(partial)
//!   C18.cmp <a> <b> <c>   => for the pairs ab ba bc ac aa: size card strict implies structural (5 letters each,
//!                            L/E/G/N) then a==b b==c a==c
#[path = "../common.rs"]
mod common;
use common::*;
use biodivine_lib_bdd::*;
use std::cmp::Ordering;
use std::collections::hash_map::DefaultHasher;
use std::convert::TryFrom;
use std::hash::{Hash, Hasher};

fn s(x: &str) -> String { x.to_string() }

fn parse_bits(x: &str) -> Vec<bool> { if x == "~" { vec![] } else { x.chars().map(|c| c == '1').collect() } }

fn apply_history(h: &str) -> BddPartialValuation {
    let mut p = BddPartialValuation::empty();
    if h == "~" { return p; }
    for op in h.split('.') {
        let (kind, rest) = op.split_at(1);
        match kind {
            "s" => { let (x, b) = rest.split_once('=').unwrap(); p.set_value(var(x.parse().unwrap()), b == "1"); }
            "u" => { p.unset_value(var(rest.parse().unwrap())); }
            "i" => {
                let (x, c) = rest.split_once('=').unwrap();
                p[var(x.parse().unwrap())] = match c { "1" => Some(true), "0" => Some(false), _ => None };
            }
            "r" => { p = BddPartialValuation::from_values(&p.to_values()); }
            "T" => { p = BddPartialValuation::from(BddValuation::new(parse_bits(rest))); }
            _ => panic!("bad op {}", op),
        }
    }
    p
}

fn cell(c: Option<bool>) -> char { match c { Some(true) => '1', Some(false) => '0', None => '-' } }
fn fmt_vals(v: &[(BddVariable, bool)]) -> String {
    if v.is_empty() { s("~") } else { v.iter().map(|(x, b)| format!("{}={}", x.to_index(), if *b { 1 } else { 0 })).collect::<Vec<_>>().join(",") }
}
fn hash_of(p: &BddPartialValuation) -> u64 { let mut h = DefaultHasher::new(); p.hash(&mut h); h.finish() }
fn b01(b: bool) -> String { s(if b { "1" } else { "0" }) }
fn ob01(b: Option<bool>) -> String { match b { Some(b) => b01(b), None => s("panic") } }

fn observe_one(p: &BddPartialValuation, k: usize, o: &mut Vec<String>) {
    let get: String = (0..k).map(|i| cell(p.get_value(var(i)))).collect();
    let idx: String = (0..k).map(|i| cell(p[var(i)])).collect();
    o.push(get); o.push(idx);
    o.push(fmt_vals(&p.to_values()));
    o.push(match catch(|| p.cardinality()) { Some(c) => c.to_string(), None => s("panic") });
    o.push(match p.last_fixed_variable() { Some(v) => v.to_index().to_string(), None => s("-") });
    o.push(b01(p.is_empty()));
    o.push(match catch(|| BddValuation::try_from(p.clone())) { Some(Ok(v)) => fmt_valuation(&v), Some(Err(())) => s("err"), None => s("panic") });
}

fn ord_letter(o: Option<Ordering>) -> char {
    match o { Some(Ordering::Less) => 'L', Some(Ordering::Equal) => 'E', Some(Ordering::Greater) => 'G', None => 'N' }
}

fn cmp5(a: &Bdd, b: &Bdd) -> String {
    let mut r = String::new();
    r.push(match catch(|| Bdd::cmp_size(a, b)) { Some(o) => ord_letter(Some(o)), None => 'P' });
    r.push(match catch(|| Bdd::cmp_cardinality(a, b)) { Some(o) => ord_letter(Some(o)), None => 'P' });
    r.push(match catch(|| Bdd::cmp_cardinality_strict(a, b)) { Some(o) => ord_letter(o), None => 'P' });
    r.push(match catch(|| Bdd::cmp_implies(a, b)) { Some(o) => ord_letter(o), None => 'P' });
    r.push(match catch(|| Bdd::cmp_structural(a, b)) { Some(o) => ord_letter(Some(o)), None => 'P' });
    r
}

/// Executes one case from its textual inputs and writes the observation.
pub fn run(key: &str, a: &[String], out: &mut Out) {
    out.begin(key, a);
    match key {
        "C18.pv" => {
            let k: usize = a[0].parse().unwrap();
            let (p, q) = (apply_history(&a[1]), apply_history(&a[2]));
            let mut o = Vec::new();
            observe_one(&p, k, &mut o);
            observe_one(&q, k, &mut o);
            o.push(b01(p == q)); o.push(b01(q == p));
            o.push(b01(hash_of(&p) == hash_of(&q)));
            o.push(ob01(catch(|| p.extends(&q)))); o.push(ob01(catch(|| q.extends(&p))));
            for x in [&p, &q] {
                o.push(match catch(|| BddValuation::try_from(x.clone())) {
                    Some(Ok(v)) => b01(BddPartialValuation::from(v) == *x),
                    _ => s("-"),
                });
            }
            out.case(key, a, &o);
        }
        "C18.conv" => {
            let bits = parse_bits(&a[0]);
            let v = BddValuation::new(bits.clone());
            let partial = BddPartialValuation::from(v.clone());
            let back = catch(|| BddValuation::try_from(partial.clone()));
            let bdd = catch(|| Bdd::from(v.clone()));
            let mut o = vec![fmt_vals(&partial.to_values()),
                match back { Some(Ok(w)) => b01(w == v), Some(Err(())) => s("err"), None => s("panic") }];
            match &bdd {
                Some(b) => {
                    o.push(fmt_bdd(b));
                    o.push(ob01(catch(|| b.eval_in(&v))));
                    o.push(match catch(|| b.exact_cardinality()) { Some(c) => c.to_string(), None => s("panic") });
                    o.push(match catch(|| b.sat_witness()) { Some(Some(w)) => b01(w == v), Some(None) => s("none"), None => s("panic") });
                    o.push(ob01(catch(|| b.is_valuation())));
                }
                None => { for _ in 0..5 { o.push(s("panic")); } }
            }
            out.case(key, a, &o);
        }
        "C18.ext" => {
            let v = BddValuation::new(parse_bits(&a[0]));
            let p = apply_history(&a[1]);
            out.case(key, a, &[ob01(catch(|| v.extends(&p)))]);
        }
        "C18.cmp" => {
            let (x, y, z) = (Bdd::from_string(&a[0]), Bdd::from_string(&a[1]), Bdd::from_string(&a[2]));
            let o = vec![cmp5(&x, &y), cmp5(&y, &x), cmp5(&y, &z), cmp5(&x, &z), cmp5(&x, &x), b01(x == y), b01(y == z), b01(x == z)];
            out.case(key, a, &o);
        }
        _ => panic!("unknown key {}", key),
    }
}

/// the 9 base operations over 3 variables: 6 sets, 3 unsets
fn base_ops(nv: usize) -> Vec<String> {
    let mut ops = Vec::new();
    for x in 0..nv { ops.push(format!("s{}=0", x)); ops.push(format!("s{}=1", x)); ops.push(format!("u{}", x)); }
    ops
}

/// final map of a history over small variables, computed by the harness only to pick partners
fn final_map(h: &str) -> Vec<(usize, bool)> {
    apply_history(h).to_values().iter().map(|(v, b)| (v.to_index(), *b)).collect()
}

fn join(ops: &[String]) -> String { if ops.is_empty() { s("~") } else { ops.join(".") } }

/// another history with the same final map: the canonical `set`s in a random order, optionally padded
fn same_map_partner(rng: &mut Rng64, h: &str) -> String {
    let mut m = final_map(h);
    // shuffle
    for i in (1..m.len()).rev() { let j = rng.below(i as u64 + 1) as usize; m.swap(i, j); }
    let mut ops: Vec<String> = Vec::new();
    for (x, b) in &m {
        if rng.chance(1, 3) { ops.push(format!("s{}={}", x, if *b { 0 } else { 1 })); } // overwritten below
        if rng.chance(1, 4) { ops.push(format!("i{}={}", x, if *b { 1 } else { 0 })); } else { ops.push(format!("s{}={}", x, if *b { 1 } else { 0 })); }
    }
    match rng.below(5) {
        0 => ops.push(format!("u{}", 3 + rng.below(4))),               // trailing None padding
        1 => { let x = 3 + rng.below(3); ops.push(format!("s{}=1", x)); ops.push(format!("i{}=-", x)); }
        2 => ops.push(s("r")),
        3 => { ops.insert(0, format!("s{}=1", 5)); ops.push(s("u5")); }
        _ => {}
    }
    join(&ops)
}

fn random_history(rng: &mut Rng64, nv: usize, max_len: usize) -> String {
    let len = rng.below(max_len as u64 + 1) as usize;
    let mut ops = Vec::new();
    for _ in 0..len {
        let x = rng.below(nv as u64);
        ops.push(match rng.below(8) {
            0 | 1 => format!("s{}=0", x), 2 | 3 => format!("s{}=1", x), 4 => format!("u{}", x),
            5 => format!("i{}={}", x, *rng.pick(&["0", "1", "-"])),
            6 => s("r"),
            _ => { let n = rng.below(nv as u64 + 1) as usize; format!("T{}", fmt_bools(&(0..n).map(|_| rng.bool()).collect::<Vec<_>>())) }
        });
    }
    join(&ops)
}

fn pv(k: usize, h1: &str, h2: &str, out: &mut Out) { run("C18.pv", &[k.to_string(), s(h1), s(h2)], out) }

fn all_small_bdds(max_n: usize) -> Vec<String> {
    let mut v = Vec::new();
    for n in 0..=max_n { for t in 0..(1u64 << (1u64 << n)) { v.push(fmt_triples(&canon_triples(n, &tt_from_index(n, t)))); } }
    v
}

/// single valuation as a chain (what `Bdd::from(BddValuation)` builds), written without the library
fn valuation_triples(bits: &[bool]) -> Vec<(usize, usize, usize)> {
    let n = bits.len();
    let mut nodes = vec![(n, 0, 0), (n, 1, 1)];
    for i in (0..n).rev() { let r = nodes.len() - 1; nodes.push(if bits[i] { (i, 0, r) } else { (i, r, 0) }); }
    nodes
}
/// negation of a diagram given as triples: swap the links into the terminals (constants swapped)
fn negate_triples(t: &[(usize, usize, usize)]) -> Vec<(usize, usize, usize)> {
    let n = t[0].0;
    if t.len() == 1 { return vec![(n, 0, 0), (n, 1, 1)]; }
    if t.len() == 2 { return vec![(n, 0, 0)]; }
    let f = |p: usize| if p == 0 { 1 } else if p == 1 { 0 } else { p };
    t.iter().enumerate().map(|(i, (v, l, h))| if i < 2 { (*v, *l, *h) } else { (*v, f(*l), f(*h)) }).collect()
}
/// `x_first | (cube on most of the later levels)` resp. with `&`: a very short and a very long path
fn short_long_triples(rng: &mut Rng64, n: usize) -> Vec<(usize, usize, usize)> {
    let first = rng.below(3.min(n as u64 - 1)) as usize;
    let mut nodes = vec![(n, 0, 0), (n, 1, 1)];
    let mut levels: Vec<usize> = (first + 1..n).filter(|_| !rng.chance(1, 10)).collect();
    if levels.is_empty() { levels.push(n - 1); }
    for v in levels.iter().rev() { let r = nodes.len() - 1; nodes.push(if rng.bool() { (*v, 0, r) } else { (*v, r, 0) }); }
    let r = nodes.len() - 1;
    nodes.push(if rng.bool() { (first, r, 1) } else { (first, 1, r) });
    nodes
}
/// canonical diagram of a random function of a few variables placed on random levels of `n` variables
fn gap_triples(rng: &mut Rng64, n: usize, max_m: usize) -> Vec<(usize, usize, usize)> {
    let m = (1 + rng.below(max_m as u64) as usize).min(n);
    let mut pos: Vec<usize> = Vec::new();
    while pos.len() < m { let p = rng.below(n as u64) as usize; if !pos.contains(&p) { pos.push(p); } }
    pos.sort();
    let tt = random_tt(rng, m);
    canon_triples(m, &tt).into_iter().map(|(v, l, h)| (if v == m { n } else { pos[v] }, l, h)).collect()
}

/// Wide comparator stream: Bdds over >= 52 variables whose exact counts are equal or differ by ONE
/// (far below the rounding step of an f64 at that magnitude), as few-node diagrams.
fn gen_wide_cmp(thorough: bool, rng: &mut Rng64, out: &mut Out) {
    for n in [52usize, 53, 54, 55, 63, 64, 65, 100, 1000] {
        let tt = vec![(n, 0, 0), (n, 1, 1)];
        let ff = vec![(n, 0, 0)];
        let zeros = valuation_triples(&vec![false; n]);
        let not_zeros = negate_triples(&zeros);                      // 2^n - 1 models
        let t = |x: &Vec<(usize, usize, usize)>| fmt_triples(x);
        let mut emit = |a: String, b: String, c: String, out: &mut Out| run("C18.cmp", &[a, b, c], out);
        // constants, a single valuation and its negation: counts 2^n, 2^n - 1, 1, 0
        emit(t(&tt), t(&not_zeros), t(&zeros), out);
        emit(t(&not_zeros), t(&tt), t(&ff), out);
        emit(t(&zeros), t(&ff), t(&not_zeros), out);
        emit(t(&ff), t(&zeros), t(&tt), out);
        for _ in 0..(if thorough { 40 } else { 5 }) {
            let bits: Vec<bool> = (0..n).map(|_| rng.bool()).collect();
            let val = valuation_triples(&bits);
            let not_val = negate_triples(&val);
            let bits2: Vec<bool> = (0..n).map(|_| rng.bool()).collect();
            let val2 = valuation_triples(&bits2);
            // two different single valuations / their negations: equal counts, different functions
            emit(t(&val), t(&val2), t(&not_val), out);
            emit(t(&not_val), t(&negate_triples(&val2)), t(&tt), out);
            // f, f minus one satisfying valuation, f plus one falsifying valuation (by the library, printed by the harness)
            let f = if rng.bool() { short_long_triples(rng, n) } else { gap_triples(rng, n, 5) };
            let fb = bdd_from_triples(&f);
            if fb.is_false() || fb.is_true() { continue; }
            let inside = fb.sat_witness().unwrap();
            let outside = fb.not().sat_witness().unwrap();
            let minus = fb.and_not(&Bdd::from(inside));
            let plus = fb.or(&Bdd::from(outside));
            emit(fmt_bdd(&minus), t(&f), fmt_bdd(&plus), out);
            emit(fmt_bdd(&plus), fmt_bdd(&minus), t(&f), out);
            emit(t(&f), fmt_bdd(&minus), t(&negate_triples(&f)), out);
            // equal counts, different functions: two literals, a literal and its negation
            let (i, j) = (rng.below(n as u64) as usize, rng.below(n as u64) as usize);
            let lit = |v: usize, b: bool| vec![(n, 0, 0), (n, 1, 1), if b { (v, 0, 1) } else { (v, 1, 0) }];
            emit(t(&lit(i, true)), t(&lit(j, true)), t(&lit(i, false)), out);
            // half the space plus / minus one valuation: 2^(n-1) + 1 vs 2^(n-1) vs 2^(n-1) - 1
            let lb = bdd_from_triples(&lit(i, true));
            let lo = lb.not().sat_witness().unwrap();
            let li = lb.sat_witness().unwrap();
            emit(fmt_bdd(&lb.or(&Bdd::from(lo))), t(&lit(i, true)), fmt_bdd(&lb.and_not(&Bdd::from(li))), out);
            // different variable counts next to each other (strict / implies must be None)
            emit(t(&tt), t(&vec![(n + 1, 0, 0), (n + 1, 1, 1)]), t(&not_zeros), out);
        }
    }
}

pub fn gen(tier: Tier, rng: &mut Rng64, out: &mut Out) {
    let thorough = tier == Tier::Thorough;
    let ops = base_ops(3);
    // --- all histories of <= L set/unset operations over 3 variables; each with a same-map partner
    //     (different construction / padding) and with a random partner (mostly a different map)
    let exhaustive_len = if thorough { 5 } else { 3 };
    let mut level: Vec<Vec<String>> = vec![vec![]];
    for len in 0..=exhaustive_len {
        for h in &level {
            let hs = join(h);
            pv(5, &hs, &same_map_partner(rng, &hs), out);
            pv(5, &hs, &random_history(rng, 3, 5), out);
            if len <= 2 || rng.chance(1, 8) {
                // extends of every total valuation over 3 variables
                for i in 0..8usize { run("C18.ext", &[fmt_bools(&val_of_index(3, i)), hs.clone()], out); }
            }
        }
        if len < exhaustive_len {
            let mut next = Vec::new();
            for h in &level { for op in &ops { let mut g = h.clone(); g.push(op.clone()); next.push(g); } }
            level = next;
        }
    }
    // pairs of short histories, exhaustively (length <= 2 each): 91 x 91
    let mut short: Vec<String> = vec![s("~")];
    for a in &ops { short.push(a.clone()); for b in &ops { short.push(format!("{}.{}", a, b)); } }
    for h1 in &short { for h2 in &short { pv(4, h1, h2, out); } }
    // --- sampled longer histories with index operators, rebuilds and conversions
    for _ in 0..(if thorough { 60000 } else { 4000 }) {
        let nv = 1 + rng.below(5) as usize;
        let h1 = random_history(rng, nv, 7);
        let h2 = if rng.bool() { same_map_partner(rng, &h1) } else { random_history(rng, nv, 7) };
        pv(nv + 2, &h1, &h2, out);
        if rng.chance(1, 3) {
            let n = rng.below(nv as u64 + 2) as usize;
            let bits: Vec<bool> = (0..n).map(|_| rng.bool()).collect();
            run("C18.ext", &[fmt_bools(&bits), h1.clone()], out);
        }
    }
    // --- large indices (growth of the vector; u16 casts of the length)
    for (h1, h2) in [("s300=1", "s300=1.u4000"), ("s65534=1", "s65534=1.r"), ("s65534=0.u65534", "~"), ("s1=1.s65534=0", "s65534=0.s1=1.u70")] {
        pv(3, h1, h2, out);
    }
    // --- conversions: all total valuations over <= 6 variables, sampled larger ones
    for n in 0..=(if thorough { 10 } else { 6 }) { for i in 0..(1usize << n) { run("C18.conv", &[fmt_bools(&val_of_index(n, i))], out); } }
    for n in [13usize, 64, 65, 300, 2000] {
        for _ in 0..(if thorough { 40 } else { 4 }) { run("C18.conv", &[fmt_bools(&(0..n).map(|_| rng.bool()).collect::<Vec<_>>())], out); }
    }
    // --- comparators: all triples over the 22 functions of <= 2 variables (mixed variable counts included)
    let small = all_small_bdds(2);
    for a in &small { for b in &small { for c in &small {
        if thorough || rng.chance(1, 2) || (a == b || b == c) { run("C18.cmp", &[a.clone(), b.clone(), c.clone()], out); }
    } } }
    // sampled triples over 3 variables, over larger random functions, and with non-canonical variants
    for _ in 0..(if thorough { 80000 } else { 4000 }) {
        let f = |rng: &mut Rng64| fmt_triples(&canon_triples(3, &tt_from_index(3, rng.below(256))));
        let (a, b) = (f(rng), f(rng));
        let c = if rng.chance(1, 4) { a.clone() } else { f(rng) };
        run("C18.cmp", &[a, b, c], out);
    }
    for _ in 0..(if thorough { 20000 } else { 1500 }) {
        let n = 2 + rng.below(5) as usize;
        let x = random_bdd(rng, n);
        // related operands so that implication holds often: y = x or z, w = x and z
        let z = random_bdd(rng, n);
        let (y, w) = (x.or(&z), x.and(&z));
        let pick = |rng: &mut Rng64, b: &Bdd| if rng.chance(1, 5) { fmt_bdd(&noncanon_variant(rng, b)) } else { fmt_bdd(b) };
        let m = if rng.chance(1, 6) { random_bdd(rng, n + 1) } else { z.clone() };
        let trip = match rng.below(3) {
            0 => [pick(rng, &w), pick(rng, &x), pick(rng, &y)],
            1 => [pick(rng, &y), pick(rng, &x), pick(rng, &m)],
            _ => [pick(rng, &x), pick(rng, &x), pick(rng, &m)],
        };
        run("C18.cmp", &trip, out);
    }
    // --- operands with more than 65 536 nodes (dense pseudo-random functions of 20 variables, ~107 000 nodes,
    //     built by the oracle builder from truth tables; relations known by construction AND recomputed by the
    //     driver from the 2^20-entry truth tables): the shared apply engine behind cmp_implies and the exact
    //     counts behind cmp_cardinality(_strict) must not depend on pointers fitting 16 bits
    for k in 0..(if thorough { 6 } else { 2 }) {
        let n = 20usize;
        let size = 1usize << n;
        let tf: Vec<bool> = (0..size).map(|_| rng.bool()).collect();
        let th: Vec<bool> = match k % 3 {
            0 => (0..size).map(|i| i & 3 == 3).collect(),                     // x18 & x19
            1 => (0..size).map(|i| (i >> 19) & 1 == 1 && i & 1 == 0).collect(), // x0 & !x19
            _ => (0..size).map(|i| (i >> 7) & 1 == 1).collect(),              // x12
        };
        let t = |tt: &Vec<bool>| fmt_triples(&canon_triples(n, tt));
        let f = t(&tf);
        if k % 2 == 0 {
            let tor: Vec<bool> = (0..size).map(|i| tf[i] || th[i]).collect();
            let tand: Vec<bool> = (0..size).map(|i| tf[i] && th[i]).collect();
            run("C18.cmp", &[t(&tand), f.clone(), t(&tor)], out);              // and => f => or  (Less, Less, Less)
        } else {
            let tg: Vec<bool> = (0..size).map(|_| rng.bool()).collect();
            let tnot: Vec<bool> = tf.iter().map(|b| !*b).collect();
            run("C18.cmp", &[f.clone(), t(&tg), t(&tnot)], out);               // incomparable big operands, and the negation
        }
        if thorough || k == 0 {
            // exact counts one apart on big operands: f minus one satisfying valuation, f, f plus one falsifying valuation
            let i1 = (0..size).map(|j| (j * 7919 + k) % size).find(|j| tf[*j]).unwrap();
            let i0 = (0..size).map(|j| (j * 104729 + k) % size).find(|j| !tf[*j]).unwrap();
            let mut tminus = tf.clone(); tminus[i1] = false;
            let mut tplus = tf.clone(); tplus[i0] = true;
            run("C18.cmp", &[t(&tminus), f.clone(), t(&tplus)], out);
        }
        if thorough {
            let tor: Vec<bool> = (0..size).map(|i| tf[i] || th[i]).collect();
            run("C18.cmp", &[t(&tor), f.clone(), t(&th)], out);                // Greater, and a small operand against big ones
        }
    }
    // --- wide operands: exact counts equal or one apart at n >= 52
    gen_wide_cmp(thorough, rng, out);
}

fn main() { harness_main(gen, run) }
