//! C02: equal functions have identical Bdds — canonical form through any history.
//!
//! One case = one straight-line program over a pool of Bdds:
//!   `C02.prog <n> <init;init;…> <op;op;…> => <result;result;…>`
//! The pool starts with the initial Bdds; every operation appends its result (on a panic the
//! result is `panic` and the pool slot is filled with a copy of pool[0], so indices stay stable).
//! An operation is `name:arg:arg…`; arguments are pool indices, variables, lists `1.3.0`,
//! literal lists `0=1.2=0`, operator tables, bit strings.
#[path = "../common.rs"]
mod common;
use biodivine_lib_bdd::*;
use common::*;
use std::collections::HashMap;

fn s(x: &str) -> String { x.to_string() }

fn parse_vars(a: &str) -> Vec<BddVariable> {
    if a == "~" || a.is_empty() { vec![] } else { a.split('.').map(|x| var(x.parse().unwrap())).collect() }
}
fn parse_lits(a: &str) -> Vec<(BddVariable, bool)> {
    if a == "~" || a.is_empty() { vec![] } else {
        a.split('.').map(|x| { let mut it = x.split('='); (var(it.next().unwrap().parse().unwrap()), it.next().unwrap() == "1") }).collect()
    }
}
fn parse_optvar(a: &str) -> Option<BddVariable> { if a == "-" { None } else { Some(var(a.parse().unwrap())) } }

fn exec(n: usize, vars: &BddVariableSet, pool: &[Bdd], op: &str) -> Option<Bdd> {
    let f: Vec<&str> = op.split(':').collect();
    let p = |i: usize| -> &Bdd { &pool[f[i].parse::<usize>().unwrap()] };
    let nc = |i: usize, seed: usize| -> Bdd { let mut r = Rng64(f[seed].parse::<u64>().unwrap()); noncanon_variant(&mut r, p(i)) };
    catch(|| match f[0] {
        "not" => p(1).not(),
        "and" => p(1).and(p(2)),
        "or" => p(1).or(p(2)),
        "xor" => p(1).xor(p(2)),
        "imp" => p(1).imp(p(2)),
        "iff" => p(1).iff(p(2)),
        "andnot" => p(1).and_not(p(2)),
        "ite" => Bdd::if_then_else(p(1), p(2), p(3)),
        "bin" => Bdd::binary_op(p(2), p(3), table_fn(f[1])),
        "fused" => Bdd::fused_binary_flip_op((p(2), parse_optvar(f[3])), (p(4), parse_optvar(f[5])), parse_optvar(f[6]), table_fn(f[1])),
        "ter" => Bdd::ternary_op(p(2), p(3), p(4), table3_fn(f[1])),
        "fused3" => Bdd::fused_ternary_flip_op((p(2), parse_optvar(f[3])), (p(4), parse_optvar(f[5])), (p(6), parse_optvar(f[7])), parse_optvar(f[8]), table3_fn(f[1])),
        "limit" => Bdd::binary_op_with_limit(1 << 30, p(2), p(3), table_fn(f[1])).unwrap(),
        "exists" => p(1).exists(&parse_vars(f[2])),
        "forall" => p(1).for_all(&parse_vars(f[2])),
        "varexists" => p(1).var_exists(var(f[2].parse().unwrap())),
        "varforall" => p(1).var_for_all(var(f[2].parse().unwrap())),
        "bexists" => Bdd::binary_op_with_exists(p(2), p(3), table_fn(f[1]), &parse_vars(f[4])),
        "bforall" => Bdd::binary_op_with_for_all(p(2), p(3), table_fn(f[1]), &parse_vars(f[4])),
        "nested" => {
            // nested:<outer table>:<i>:<j>:<trigger bit mask>:<inner or|and>
            let mask: u64 = f[4].parse().unwrap();
            let trig = move |v: BddVariable| (mask >> v.to_index()) & 1 == 1;
            if f[5] == "or" { Bdd::binary_op_nested(p(2), p(3), trig, table_fn(f[1]), op_function::or) }
            else { Bdd::binary_op_nested(p(2), p(3), trig, table_fn(f[1]), op_function::and) }
        }
        "select" => p(1).select(&parse_lits(f[2])),
        "restrict" => p(1).restrict(&parse_lits(f[2])),
        "varselect" => p(1).var_select(var(f[2].parse().unwrap()), f[3] == "1"),
        "varrestrict" => p(1).var_restrict(var(f[2].parse().unwrap()), f[3] == "1"),
        "pick" => p(1).pick(&parse_vars(f[2])),
        "varpick" => p(1).var_pick(var(f[2].parse().unwrap())),
        "pickrandom" => {
            let flips: Vec<bool> = if f[3] == "~" { vec![] } else { f[3].chars().map(|c| c == '1').collect() };
            p(1).pick_random(&parse_vars(f[2]), &mut CoinRng::new(flips))
        }
        "substitute" => p(1).substitute(var(f[2].parse().unwrap()), p(3)),
        "dnf" => vars.mk_dnf(&p(1).to_dnf()),
        "optdnf" => vars.mk_dnf(&p(1).to_optimized_dnf()),
        "cnf" => vars.mk_cnf(&p(1).to_cnf()),
        "text" => Bdd::from_string(&p(1).to_string()),
        "bytes" => Bdd::from_bytes(&mut &p(1).to_bytes()[..]),
        "nodes" => Bdd::from_nodes(&p(1).clone().to_nodes()).unwrap(),
        "expr" => vars.eval_expression(&p(1).to_boolean_expression(vars)),
        "exprtext" => vars.eval_expression_string(&p(1).to_boolean_expression(vars).to_string()),
        "transfer" => vars.transfer_from(p(1), vars).unwrap(),
        // transferp:<i>:<p0.p1.…>: transfer into a variable set that declares the same names in the permuted order
        // x_{p0}, x_{p1}, …; a refusal (None) is the outcome `panic`; an accepted result joins the pool (it must be
        // canonical like everything else)
        "transferp" => {
            let names: Vec<String> = parse_vars(f[2]).iter().map(|v| format!("x_{}", v.to_index())).collect();
            let refs: Vec<&str> = names.iter().map(|x| x.as_str()).collect();
            let target = BddVariableSet::new(&refs);
            target.transfer_from(p(1), vars).unwrap()
        }
        "renamevar" => { let mut b = p(1).clone(); unsafe { b.rename_variable(var(f[2].parse().unwrap()), var(f[3].parse().unwrap())); } b }
        "mkvar" => vars.mk_var(var(f[1].parse().unwrap())),
        "mknotvar" => vars.mk_not_var(var(f[1].parse().unwrap())),
        "mktrue" => vars.mk_true(),
        "mkfalse" => vars.mk_false(),
        "satk" => vars.mk_sat_exactly_k(f[1].parse().unwrap(), &parse_vars(f[2])),
        "satupk" => vars.mk_sat_up_to_k(f[1].parse().unwrap(), &parse_vars(f[2])),
        "clause" => vars.mk_conjunctive_clause(&BddPartialValuation::from_values(&parse_lits(f[1]))),
        "dclause" => vars.mk_disjunctive_clause(&BddPartialValuation::from_values(&parse_lits(f[1]))),
        "valuation" => Bdd::from(BddValuation::new(f[1].chars().map(|c| c == '1').collect())),
        // operators on merely valid (non-canonical) variants of pool elements
        "ncbin" => Bdd::binary_op(&nc(2, 4), &nc(3, 5), table_fn(f[1])),
        "ncand" => nc(1, 2).and(&vars.mk_true()),
        "ncter" => Bdd::ternary_op(&nc(2, 5), &nc(3, 6), p(4), table3_fn(f[1])),
        "ncexists" => Bdd::binary_op_with_exists(&nc(2, 5), &nc(3, 6), table_fn(f[1]), &parse_vars(f[4])),
        _ => panic!("unknown op {}", op),
    })
    .filter(|b| b.num_vars() as usize == n || true)
}

pub fn run(key: &str, a: &[String], out: &mut Out) {
    out.begin(key, a);
    match key {
        "C02.prog" => {
            let n: usize = a[0].parse().unwrap();
            let vars = BddVariableSet::new_anonymous(n as u16);
            let mut pool: Vec<Bdd> = a[1].split(';').map(Bdd::from_string).collect();
            let mut results = vec![];
            for op in a[2].split(';') {
                match exec(n, &vars, &pool, op) {
                    Some(b) => { results.push(fmt_bdd(&b)); pool.push(b); }
                    None => { results.push(s("panic")); let z = pool[0].clone(); pool.push(z); }
                }
            }
            // Eq/Hash/serialised forms of equal-function pairs: `==`, hash, text and bytes agree exactly when the node vectors agree
            let mut obs = vec![results.join(";")];
            let mut consistent = true;
            let mut hashes: HashMap<String, u64> = HashMap::new();
            for b in &pool {
                use std::hash::{Hash, Hasher};
                let mut h = std::collections::hash_map::DefaultHasher::new();
                b.hash(&mut h);
                let hv = h.finish();
                let key = fmt_bdd(b);
                if let Some(prev) = hashes.get(&key) { if *prev != hv { consistent = false; } }
                hashes.insert(key, hv);
            }
            for i in 0..pool.len() { for j in 0..i {
                let same_nodes = fmt_bdd(&pool[i]) == fmt_bdd(&pool[j]);
                if (pool[i] == pool[j]) != same_nodes { consistent = false; }
                if same_nodes && (pool[i].to_string() != pool[j].to_string() || pool[i].to_bytes() != pool[j].to_bytes()) { consistent = false; }
            } }
            obs.push(s(if consistent { "eqhash-ok" } else { "eqhash-bad" }));
            // is_true / is_false as the library reports them
            obs.push(pool.iter().skip(a[1].split(';').count()).map(|b| if b.is_false() { 'F' } else if b.is_true() { 'T' } else { '-' }).collect());
            out.case(key, a, &obs);
        }
        _ => panic!("unknown key {}", key),
    }
}

fn rand_vars(rng: &mut Rng64, n: usize) -> String {
    if n == 0 { return s("~"); }
    let k = rng.below(n as u64 + 2) as usize;
    let v: Vec<String> = (0..k).map(|_| rng.below(n as u64).to_string()).collect();
    if v.is_empty() { s("~") } else { v.join(".") }
}
fn rand_lits(rng: &mut Rng64, n: usize) -> String {
    if n == 0 { return s("~"); }
    let k = rng.below(n as u64 + 1) as usize;
    let v: Vec<String> = (0..k).map(|_| format!("{}={}", rng.below(n as u64), rng.below(2))).collect();
    if v.is_empty() { s("~") } else { v.join(".") }
}
fn rand_optvar(rng: &mut Rng64, n: usize) -> String {
    if n == 0 || rng.chance(1, 2) { s("-") } else { rng.below(n as u64).to_string() }
}
fn rand_table(rng: &mut Rng64) -> String { let c = rng.below(16) as u32; random_table2(rng, c) }
fn rand_table3(rng: &mut Rng64) -> String { let c = rng.below(256) as u32; random_table3(rng, c) }

/// one random operation over a pool of `m` elements
fn rand_op(rng: &mut Rng64, n: usize, m: usize) -> String {
    let i = rng.below(m as u64); let j = rng.below(m as u64); let k = rng.below(m as u64);
    let x = if n == 0 { 0 } else { rng.below(n as u64) };
    match rng.below(if n == 0 { 20 } else { 54 }) {
        52 | 53 => {
            // a permutation of the variables: mostly one adjacent transposition (first, middle or LAST pair), sometimes random
            let mut perm: Vec<usize> = (0..n).collect();
            if n >= 2 {
                match rng.below(4) {
                    0 => perm.swap(n - 2, n - 1),
                    1 => perm.swap(0, 1),
                    2 => { let a = rng.below(n as u64 - 1) as usize; perm.swap(a, a + 1); }
                    _ => { for a in (1..n).rev() { let b = rng.below(a as u64 + 1) as usize; perm.swap(a, b); } }
                }
            }
            format!("transferp:{}:{}", i, perm.iter().map(|v| v.to_string()).collect::<Vec<_>>().join("."))
        }
        0 => format!("not:{}", i),
        1 => format!("and:{}:{}", i, j),
        2 => format!("or:{}:{}", i, j),
        3 => format!("xor:{}:{}", i, j),
        4 => format!("imp:{}:{}", i, j),
        5 => format!("iff:{}:{}", i, j),
        6 => format!("andnot:{}:{}", i, j),
        7 => format!("ite:{}:{}:{}", i, j, k),
        8 => format!("bin:{}:{}:{}", rand_table(rng), i, j),
        9 => format!("ter:{}:{}:{}:{}", rand_table3(rng), i, j, k),
        10 => format!("limit:{}:{}:{}", rand_table(rng), i, j),
        11 => format!("dnf:{}", i),
        12 => format!("optdnf:{}", i),
        13 => format!("cnf:{}", i),
        14 => format!("text:{}", i),
        15 => format!("bytes:{}", i),
        16 => format!("nodes:{}", i),
        17 => format!("expr:{}", i),
        18 => format!("exprtext:{}", i),
        19 => format!("transfer:{}", i),
        20 => format!("fused:{}:{}:{}:{}:{}:{}", rand_table(rng), i, rand_optvar(rng, n), j, rand_optvar(rng, n), rand_optvar(rng, n)),
        21 => format!("fused3:{}:{}:{}:{}:{}:{}:{}:{}", rand_table3(rng), i, rand_optvar(rng, n), j, rand_optvar(rng, n), k, rand_optvar(rng, n), rand_optvar(rng, n)),
        22 | 23 => format!("exists:{}:{}", i, rand_vars(rng, n)),
        24 | 25 => format!("forall:{}:{}", i, rand_vars(rng, n)),
        26 => format!("varexists:{}:{}", i, x),
        27 => format!("varforall:{}:{}", i, x),
        28 => format!("bexists:{}:{}:{}:{}", rand_table(rng), i, j, rand_vars(rng, n)),
        29 => format!("bforall:{}:{}:{}:{}", rand_table(rng), i, j, rand_vars(rng, n)),
        30 => format!("nested:{}:{}:{}:{}:{}", rand_table(rng), i, j, rng.below(1 << n), if rng.bool() { "or" } else { "and" }),
        31 | 32 => format!("select:{}:{}", i, rand_lits(rng, n)),
        33 | 34 | 35 => format!("restrict:{}:{}", i, rand_lits(rng, n)),
        36 => format!("varselect:{}:{}:{}", i, x, rng.below(2)),
        37 | 38 => format!("varrestrict:{}:{}:{}", i, x, rng.below(2)),
        39 => format!("pick:{}:{}", i, rand_vars(rng, n)),
        40 => format!("varpick:{}:{}", i, x),
        41 => { let flips: Vec<bool> = (0..n + 2).map(|_| rng.bool()).collect(); format!("pickrandom:{}:{}:{}", i, rand_vars(rng, n), fmt_bools(&flips)) }
        42 | 43 => format!("substitute:{}:{}:{}", i, x, j),
        44 => format!("renamevar:{}:{}:{}", i, x, rng.below(n as u64)),
        45 => format!("mkvar:{}", x),
        46 => format!("satk:{}:{}", rng.below(n as u64 + 2), rand_vars(rng, n)),
        47 => format!("satupk:{}:{}", rng.below(n as u64 + 2), rand_vars(rng, n)),
        48 => format!("clause:{}", rand_lits(rng, n)),
        49 => format!("dclause:{}", rand_lits(rng, n)),
        50 => { let v: Vec<bool> = (0..n).map(|_| rng.bool()).collect(); format!("valuation:{}", fmt_bools(&v)) }
        _ => match rng.below(4) {
            0 => format!("ncbin:{}:{}:{}:{}:{}", rand_table(rng), i, j, rng.below(1000), rng.below(1000)),
            1 => format!("ncand:{}:{}", i, rng.below(1000)),
            2 => format!("ncter:{}:{}:{}:{}:{}:{}", rand_table3(rng), i, j, k, rng.below(1000), rng.below(1000)),
            _ => format!("ncexists:{}:{}:{}:{}:{}:{}", rand_table(rng), i, j, rand_vars(rng, n), rng.below(1000), rng.below(1000)),
        },
    }
}

pub fn gen(tier: Tier, rng: &mut Rng64, out: &mut Out) {
    let thorough = tier == Tier::Thorough;
    // --- single operations on all functions over 3 variables that have a layout-sensitive shape
    // (two routes to the same function: the operation result vs. the oracle-built canonical form
    //  is checked by the driver through `isCanon`)
    let all3: Vec<String> = (0..256u64).map(|t| fmt_bdd(&bdd_of_tt(3, &tt_from_index(3, t)))).collect();
    let n_single = if thorough { 256 } else { 64 };
    for t in 0..n_single {
        let b = if thorough { all3[t].clone() } else { all3[rng.below(256) as usize].clone() };
        let ops = [s("not:0"), s("dnf:0"), s("optdnf:0"), s("cnf:0"), s("text:0"), s("bytes:0"), s("expr:0"), s("exprtext:0"),
                   s("varrestrict:0:0:1"), s("varrestrict:0:1:0"), s("varrestrict:0:2:1"), s("restrict:0:0=1.2=0"),
                   s("exists:0:1"), s("forall:0:0.2"), s("pick:0:2.0"), s("varpick:0:1"), s("substitute:0:1:0"), s("transfer:0"),
                   s("transferp:0:0.1.2"), s("transferp:0:0.2.1"), s("transferp:0:1.0.2"), s("transferp:0:1.2.0"), s("transferp:0:2.0.1"), s("transferp:0:2.1.0"),
                   s("ncand:0:7"), s("and:0:0"), s("ite:0:0:0")];
        run("C02.prog", &[s("3"), b, ops.join(";")], out);
    }
    // the function of the fixed restrict defect: (x0 & x1) | (!x0 & x2) over 4 variables, restricted on x3
    {
        let tt: Vec<bool> = (0..16).map(|i| { let v = val_of_index(4, i); (v[0] && v[1]) || (!v[0] && v[2]) }).collect();
        run("C02.prog", &[s("4"), fmt_bdd(&bdd_of_tt(4, &tt)), s("varrestrict:0:3:1;varrestrict:0:3:0;restrict:0:3=1;and:0:1;iff:0:1")], out);
    }
    // --- histories over operands with more than 65 536 nodes (pointers that need a third byte): a dense
    // pseudo-random function over 20 variables and a small partner, with second routes to the same
    // function (De Morgan, and_not, ite); decided by `isCanon` on every result and by the model replay
    let bigs = if thorough { 3 } else { 1 };
    for k in 0..bigs {
        let n = 20usize;
        let tt: Vec<bool> = (0..(1usize << n)).map(|_| rng.bool()).collect();
        let big = fmt_bdd(&bdd_of_tt(n, &tt));
        let m: usize = (rng.next() as usize & ((1 << n) - 1)) | 1 | (1 << (n - 1));
        let small = if k % 2 == 0 {
            fmt_bdd(&bdd_of_tt(n, &(0..(1usize << n)).map(|i| (i & m).count_ones() % 2 == 1).collect::<Vec<_>>()))
        } else {
            fmt_bdd(&bdd_of_tt(n, &(0..(1usize << n)).map(|i| i & 1 == 1 && (i >> 7) & 1 == 0).collect::<Vec<_>>()))
        };
        // pool: 0 = big, 1 = small; results: 2 = and, 3 = !big, 4 = !small, 5 = !big | !small, 6 = !5 (== 2),
        // 7 = big & !(!small) (== 2), 8 = ite(small, big, false-ish 6) , 9 = restriction, 10 = select
        // (the big operand appears on the left AND on the right of binary operators)
        let ops = [s("and:0:1"), s("not:0"), s("not:1"), s("or:4:3"), s("not:5"), s("andnot:0:4"), s("ite:1:0:6"),
                   s("varrestrict:0:19:1"), s("varselect:0:0:0"), s("xor:1:0"), s("iff:0:4"), s("and:1:0"), s("imp:4:3")];
        run("C02.prog", &[n.to_string(), format!("{};{}", big, small), ops.join(";")], out);
    }
    // --- random histories
    let programs = if thorough { 120000 } else { 5000 };
    for _ in 0..programs {
        let n = match rng.below(10) { 0 => 0, 1 => 1, 2 => 2, 3 | 4 => 3, 5 | 6 => 4, 7 => 5, 8 => 6, _ => 7 } as usize;
        let inits = 2 + rng.below(3) as usize;
        let mut pool: Vec<String> = vec![];
        for _ in 0..inits {
            pool.push(match rng.below(6) {
                0 if n > 0 => fmt_bdd(&bdd_of_tt(n, &(0..(1usize << n)).map(|i| val_of_index(n, i)[(rng.0 % n as u64) as usize]).collect::<Vec<_>>())),
                1 => fmt_bdd(&bdd_of_tt(n, &vec![rng.bool(); 1 << n])),
                _ => fmt_bdd(&random_bdd(rng, n)),
            });
        }
        let len = 1 + rng.below(12) as usize;
        let mut ops = vec![];
        for k in 0..len { ops.push(rand_op(rng, n, inits + k)); }
        // deliberate second routes to earlier results
        if len >= 2 && rng.chance(1, 2) {
            let m = inits + len;
            let (i, j) = (rng.below(inits as u64), rng.below(inits as u64));
            ops.push(format!("and:{}:{}", i, j));            // m
            ops.push(format!("not:{}", i));                  // m+1
            ops.push(format!("not:{}", j));                  // m+2
            ops.push(format!("or:{}:{}", m + 1, m + 2));     // m+3
            ops.push(format!("not:{}", m + 3));              // m+4 == m (De Morgan)
            ops.push(format!("andnot:{}:{}", i, m + 2));     // == m
            ops.push(format!("ite:{}:{}:{}", i, j, m + 3 - m + m)); // arbitrary mix
        }
        run("C02.prog", &[n.to_string(), pool.join(";"), ops.join(";")], out);
    }
}

fn main() { harness_main(gen, run) }
