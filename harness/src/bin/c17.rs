//! C17: variable renaming and transfer keep the function or refuse.
//!
//!   C17.setnv    <bdd> <new_value>            => <bdd>|panic          set_num_vars
//!   C17.renvars  <bdd> <k:v,k:v,…|~>          => <bdd>|panic          rename_variables (insertions in order)
//!   C17.renvar   <bdd> <old> <new>            => <bdd>|panic          rename_variable
//!   C17.transfer <bdd> <src names> <tgt names> => <bdd>|none|panic    target.transfer_from(bdd, source)
#[path = "../common.rs"]
mod common;
use biodivine_lib_bdd::*;
use common::*;
use std::collections::HashMap;

fn s(x: &str) -> String { x.to_string() }

fn parse_names(a: &str) -> Vec<String> {
    if a == "~" { vec![] } else { a.split(',').map(|x| x.to_string()).collect() }
}
fn fmt_names(v: &[String]) -> String { if v.is_empty() { s("~") } else { v.join(",") } }
fn parse_map(a: &str) -> Vec<(usize, usize)> {
    if a == "~" { return vec![]; }
    a.split(',').map(|kv| { let mut it = kv.split(':'); (it.next().unwrap().parse().unwrap(), it.next().unwrap().parse().unwrap()) }).collect()
}
fn fmt_map(m: &[(usize, usize)]) -> String {
    if m.is_empty() { s("~") } else { m.iter().map(|(k, v)| format!("{}:{}", k, v)).collect::<Vec<_>>().join(",") }
}

pub fn run(key: &str, a: &[String], out: &mut Out) {
    out.begin(key, a);
    match key {
        "C17.setnv" => {
            let b = Bdd::from_string(&a[0]);
            let nv: u16 = a[1].parse().unwrap();
            let res = catch(|| { let mut c = b.clone(); unsafe { c.set_num_vars(nv); } c });
            out.case(key, a, &[fmt_res_bdd(&res)]);
        }
        "C17.renvars" => {
            let b = Bdd::from_string(&a[0]);
            let mut map: HashMap<BddVariable, BddVariable> = HashMap::new();
            for (k, v) in parse_map(&a[1]) { map.insert(var(k), var(v)); }
            let res = catch(|| { let mut c = b.clone(); unsafe { c.rename_variables(&map); } c });
            out.case(key, a, &[fmt_res_bdd(&res)]);
        }
        "C17.renvar" => {
            let b = Bdd::from_string(&a[0]);
            let (old, new): (usize, usize) = (a[1].parse().unwrap(), a[2].parse().unwrap());
            let res = catch(|| { let mut c = b.clone(); unsafe { c.rename_variable(var(old), var(new)); } c });
            out.case(key, a, &[fmt_res_bdd(&res)]);
        }
        "C17.transfer" => {
            let b = Bdd::from_string(&a[0]);
            let (src, tgt) = (parse_names(&a[1]), parse_names(&a[2]));
            let res = catch(|| {
                let src_refs: Vec<&str> = src.iter().map(|x| x.as_str()).collect();
                let tgt_refs: Vec<&str> = tgt.iter().map(|x| x.as_str()).collect();
                let source = BddVariableSet::new(&src_refs);
                let target = BddVariableSet::new(&tgt_refs);
                target.transfer_from(&b, &source)
            });
            let obs = match res { Some(Some(r)) => fmt_bdd(&r), Some(None) => s("none"), None => s("panic") };
            out.case(key, a, &[obs]);
        }
        _ => panic!("unknown key {}", key),
    }
}

/// all sequences of distinct names over `pool` of every length 0..=pool.len()
fn all_name_lists(pool: &[&str]) -> Vec<Vec<String>> {
    fn go(pool: &[&str], cur: &mut Vec<String>, acc: &mut Vec<Vec<String>>) {
        acc.push(cur.clone());
        for p in pool {
            if !cur.iter().any(|c| c == p) {
                cur.push(p.to_string());
                go(pool, cur, acc);
                cur.pop();
            }
        }
    }
    let mut acc = vec![];
    go(pool, &mut vec![], &mut acc);
    acc
}

/// all partial maps with keys 0..=n and values 0..=n (key n = `num_vars`, value n = out of range)
fn all_maps(n: usize) -> Vec<Vec<(usize, usize)>> {
    let base = n + 2; // per key: absent, or one of n+1 values
    let total = (base as u64).pow((n + 1) as u32);
    (0..total).map(|mut code| {
        let mut m = vec![];
        for k in 0..=n {
            let d = (code % base as u64) as usize;
            code /= base as u64;
            if d > 0 { m.push((k, d - 1)); }
        }
        m
    }).collect()
}

/// function of the variables in `sub` (strictly increasing), lifted to n variables
fn lifted_bdd(rng: &mut Rng64, n: usize, sub: &[usize]) -> Bdd {
    let k = sub.len();
    let inner = random_tt(rng, k);
    let tt: TT = (0..(1usize << n)).map(|i| {
        let v = val_of_index(n, i);
        let mut j = 0usize;
        for x in sub { j = (j << 1) | (v[*x] as usize); }
        inner[j]
    }).collect();
    bdd_of_tt(n, &tt)
}
fn random_subset(rng: &mut Rng64, n: usize, k: usize) -> Vec<usize> {
    let mut all: Vec<usize> = (0..n).collect();
    while all.len() > k { let i = rng.below(all.len() as u64) as usize; all.remove(i); }
    all
}

/// ALL diagrams accepted by `from_nodes` with exactly `k` decision nodes over `n` variables whose links
/// point to smaller indices: every node chooses a variable and two links among the earlier rows, subject
/// only to the ordering along links. This includes every non-reduced shape: redundant tests into terminals
/// `(v,1,1)`, `(v,0,0)`, into inner nodes `(v,p,p)`, duplicated nodes, unreachable nodes.
fn all_valid_diagrams(n: usize, k: usize) -> Vec<Vec<(usize, usize, usize)>> {
    fn go(n: usize, k: usize, cur: &mut Vec<(usize, usize, usize)>, acc: &mut Vec<Vec<(usize, usize, usize)>>) {
        if cur.len() == k + 2 { acc.push(cur.clone()); return; }
        let i = cur.len();
        for v in 0..n { for l in 0..i { for h in 0..i {
            if cur[l].0 > v && cur[h].0 > v { cur.push((v, l, h)); go(n, k, cur, acc); cur.pop(); }
        } } }
    }
    let mut acc = vec![];
    go(n, k, &mut vec![(n, 0, 0), (n, 1, 1)], &mut acc);
    acc
}
/// one random diagram of that family (same constraints), `k` decision nodes
fn random_valid_diagram(rng: &mut Rng64, n: usize, k: usize) -> Vec<(usize, usize, usize)> {
    let mut cur = vec![(n, 0, 0), (n, 1, 1)];
    while cur.len() < k + 2 {
        let i = cur.len();
        let (l, h) = if rng.chance(1, 3) { let p = rng.below(i as u64) as usize; (p, p) } else { (rng.below(i as u64) as usize, rng.below(i as u64) as usize) };
        let top = cur[l].0.min(cur[h].0);
        if top == 0 { continue; }
        // bias towards the largest admissible variable, so that long chains can still be built above it
        let v = if rng.bool() { top - 1 } else { rng.below(top as u64) as usize };
        cur.push((v, l, h));
    }
    cur
}
fn accepted_by_from_nodes(nodes: &[(usize, usize, usize)]) -> bool {
    let data: Vec<BddNode> = nodes.iter().map(|(v, l, h)| BddNode::mk_node(var(*v), BddPointer::from_index(*l), BddPointer::from_index(*h))).collect();
    Bdd::from_nodes(&data).is_ok()
}
fn is_reduced_triples(nodes: &[(usize, usize, usize)]) -> bool {
    for i in 2..nodes.len() {
        if nodes[i].1 == nodes[i].2 { return false; }
        for j in 2..i { if nodes[j] == nodes[i] { return false; } }
    }
    true
}

/// Stream of VALID but NOT REDUCED operands (the support must still contain the variable of every decision row).
fn nonreduced(thorough: bool, rng: &mut Rng64, out: &mut Out, targets: &[Vec<String>]) {
    let pool = ["a", "b", "c", "d"];
    let mut ops = |d: &Vec<(usize, usize, usize)>, n: usize, full: bool, rng: &mut Rng64, out: &mut Out| {
        assert!(accepted_by_from_nodes(d), "generator produced a diagram that from_nodes rejects: {:?}", d);
        let f = fmt_triples(d);
        let src: Vec<String> = pool[..n].iter().map(|x| x.to_string()).collect();
        // rename_variable: all (old, new) pairs incl. the out-of-range id n
        for old in 0..=n { for new in 0..=n {
            if full || rng.chance(1, 2) { run("C17.renvar", &[f.clone(), old.to_string(), new.to_string()], out); }
        } }
        for nv in 0..=(n + 2) { if full || rng.chance(1, 2) { run("C17.setnv", &[f.clone(), nv.to_string()], out); } }
        // rename_variables: all maps over <= 3 variables in thorough, sampled otherwise
        let maps = all_maps(n);
        let want = if thorough { if n <= 3 { maps.len() } else { 400 } } else if full { 10 } else { 5 };
        if want >= maps.len() { for m in &maps { run("C17.renvars", &[f.clone(), fmt_map(m)], out); } }
        else { for _ in 0..want { run("C17.renvars", &[f.clone(), fmt_map(&rng.pick::<Vec<(usize, usize)>>(&maps)[..])], out); } }
        // transfer_from: all target name lists in thorough, sampled otherwise
        if thorough { for t in targets { run("C17.transfer", &[f.clone(), fmt_names(&src), fmt_names(t)], out); } }
        else { for _ in 0..(if full { 10 } else { 5 }) { run("C17.transfer", &[f.clone(), fmt_names(&src), fmt_names(&rng.pick::<Vec<String>>(targets)[..])], out); } }
    };
    // exhaustive: every valid diagram with <= 4 rows (<= 2 decision nodes) over 1..4 variables that is not reduced
    for n in (1..=4usize).rev() {
        for k in 1..=2usize {
            for d in all_valid_diagrams(n, k) {
                if is_reduced_triples(&d) && !rng.chance(1, 8) { continue; } // reduced ones are a sampled control group
                ops(&d, n, thorough || n == 4, rng, out);
            }
        }
    }
    // 5 rows: exhaustive in thorough (non-reduced ones), sampled in quick; 6-8 rows sampled
    if thorough {
        for n in 2..=4usize { for d in all_valid_diagrams(n, 3) {
            if is_reduced_triples(&d) { continue; }
            if n == 4 && !rng.chance(1, 4) { continue; }
            ops(&d, n, false, rng, out);
        } }
    }
    let samples = if thorough { 6000 } else { 160 };
    for _ in 0..samples {
        let n = 3 + rng.below(2) as usize;
        let k = 3 + rng.below(if thorough { 4 } else { 2 }) as usize;
        let d = random_valid_diagram(rng, n, k);
        if is_reduced_triples(&d) && !rng.chance(1, 8) { continue; }
        ops(&d, n, false, rng, out);
    }
}

/// One operand with more than 65 536 nodes: a dense pseudo-random function of 20 variables (~107 000 nodes),
/// placed in a space of 23 variables with the levels 5, 6 and 22 free (the relabelling of the oracle builder's
/// canonical diagram along a strictly increasing map is canonical).
fn bigs(thorough: bool, rng: &mut Rng64, out: &mut Out) {
    let rounds = if thorough { 3 } else { 1 };
    for _ in 0..rounds {
        let k = 20usize;
        let n = 23usize;
        let pos: Vec<usize> = (0..k).map(|i| if i < 5 { i } else { i + 2 }).collect();
        let tt: Vec<bool> = (0..(1usize << k)).map(|_| rng.bool()).collect();
        let nodes: Vec<(usize, usize, usize)> = canon_triples(k, &tt).iter().enumerate()
            .map(|(i, (v, l, h))| if i < 2 { (n, *l, *h) } else { (pos[*v], *l, *h) }).collect();
        let f = fmt_triples(&nodes);
        // rename_variable: into an adjacent free level (accepted), over a free level (accepted), over a used one (refused)
        let mut pairs = vec![(7usize, 6usize), (4, 6), (4, 5), (3, 5)];
        if thorough { pairs.extend([(21, 22), (7, 5), (0, 22), (5, 6), (6, 5), (22, 5), (4, 23)]); }
        for (old, new) in pairs { run("C17.renvar", &[f.clone(), old.to_string(), new.to_string()], out); }
        // rename_variables: shift the upper block down by one, up by one; swap of two used levels (refused);
        // swap of the two free levels 5 <-> 6 (keys outside the support: nothing happens)
        let down: Vec<(usize, usize)> = (7..=21).map(|v| (v, v - 1)).collect();
        let up: Vec<(usize, usize)> = (7..=21).map(|v| (v, v + 1)).collect();
        run("C17.renvars", &[f.clone(), fmt_map(&down)], out);
        run("C17.renvars", &[f.clone(), fmt_map(&up)], out);
        run("C17.renvars", &[f.clone(), s("5:6,6:5,23:0")], out);
        if thorough {
            run("C17.renvars", &[f.clone(), s("4:7,7:4")], out);
            run("C17.renvars", &[f.clone(), s("4:5,7:6")], out);
            let down2: Vec<(usize, usize)> = (7..=21).map(|v| (v, v - 2)).collect();
            run("C17.renvars", &[f.clone(), fmt_map(&down2)], out);
        }
        // set_num_vars up / to the lowest admissible value / one below it
        for nv in if thorough { vec![30usize, 65535, 22, 21] } else { vec![30, 21] } { run("C17.setnv", &[f.clone(), nv.to_string()], out); }
        // transfer: extra names, free levels dropped, order kept (Some); two used names swapped (None)
        let src: Vec<String> = (0..n).map(|i| format!("v{}", i)).collect();
        let mut tgt: Vec<String> = vec![s("e0")];
        for i in 0..n { if i != 5 && i != 22 { tgt.push(src[i].clone()); } if i % 7 == 3 { tgt.push(format!("e{}", i)); } }
        run("C17.transfer", &[f.clone(), fmt_names(&src), fmt_names(&tgt)], out);
        if thorough {
            let mut bad = tgt.clone();
            let (a, b) = (bad.iter().position(|x| x == "v9").unwrap(), bad.iter().position(|x| x == "v10").unwrap());
            bad.swap(a, b);
            run("C17.transfer", &[f.clone(), fmt_names(&src), fmt_names(&bad)], out);
            let missing: Vec<String> = tgt.iter().filter(|x| *x != "v13").cloned().collect();
            run("C17.transfer", &[f.clone(), fmt_names(&src), fmt_names(&missing)], out);
        }
    }
}

const INVALID: [&str; 8] = [
    "|2,0,0|2,1,1|5,0,1|",            // variable out of range
    "|2,0,0|2,1,1|1,0,1|0,2,1|1,3,0|", // not ordered along an edge
    "|3,0,0|3,1,1|1,0,1|1,2,0|",      // same variable on parent and child
    "|3,0,0|2,1,1|0,0,1|",            // terminals disagree
    "|2,0,0|2,1,1|0,0,7|",            // link out of range
    "|3,0,0|3,1,1|3,0,1|",            // decision node on num_vars
    "|2,0,0|2,1,1|0,1,1|",            // redundant test (valid, not reduced)
    "|1,0,0|",                        // false over one variable
];

pub fn gen(tier: Tier, rng: &mut Rng64, out: &mut Out) {
    let thorough = tier == Tier::Thorough;
    let pool = ["a", "b", "c", "d"];
    let targets = all_name_lists(&pool);
    // ---------------- valid but non-reduced operands (redundant tests, duplicated nodes) over <= 4 variables
    nonreduced(thorough, rng, out, &targets);
    // ---------------- exhaustive small universes: all functions over n <= 3 variables
    for n in 0..=3usize {
        let count = 1u64 << (1u64 << n);
        let funcs: Vec<String> = (0..count).map(|t| fmt_bdd(&bdd_of_tt(n, &tt_from_index(n, t)))).collect();
        let maps = all_maps(n);
        let src: Vec<String> = pool[..n].iter().map(|x| x.to_string()).collect();
        let sources: Vec<Vec<String>> = targets.iter().filter(|t| t.len() == n).cloned().collect();
        for f in &funcs {
            for nv in 0..=(n + 2) { run("C17.setnv", &[f.clone(), nv.to_string()], out); }
            for old in 0..=n { for new in 0..=n { run("C17.renvar", &[f.clone(), old.to_string(), new.to_string()], out); } }
            for m in &maps {
                if thorough || n < 3 || rng.chance(1, 26) { run("C17.renvars", &[f.clone(), fmt_map(m)], out); }
            }
            for t in &targets {
                if thorough || n < 3 || rng.chance(1, 3) { run("C17.transfer", &[f.clone(), fmt_names(&src), fmt_names(t)], out); }
                // reordered source sets: same pairs up to a bijection of names, kept as a sampled cross-check
                if (thorough && n == 3) || rng.chance(1, 40) {
                    for sperm in &sources {
                        if thorough || rng.chance(1, 6) { run("C17.transfer", &[f.clone(), fmt_names(sperm), fmt_names(t)], out); }
                    }
                }
            }
            // source set shorter / longer than the variable count (name_of may panic)
            if n > 0 && rng.chance(1, 4) {
                let short: Vec<String> = src[..n - 1].to_vec();
                run("C17.transfer", &[f.clone(), fmt_names(&short), fmt_names(&rng.pick::<Vec<String>>(&targets)[..])], out);
                let mut long = src.clone(); long.push(s("z"));
                run("C17.transfer", &[f.clone(), fmt_names(&long), fmt_names(&rng.pick::<Vec<String>>(&targets)[..])], out);
            }
        }
    }
    // ---------------- random functions over 4-6 variables, with level gaps and non-canonical layouts
    let rounds = if thorough { 40000 } else { 1500 };
    for _ in 0..rounds {
        let n = 4 + rng.below(3) as usize;
        let k = rng.below(n as u64 + 1) as usize;
        let sub = random_subset(rng, n, k);
        let mut b = if rng.chance(2, 3) { lifted_bdd(rng, n, &sub) } else { random_bdd(rng, n) };
        if rng.chance(1, 5) { b = noncanon_variant(rng, &b); }
        let f = fmt_bdd(&b);
        let support: Vec<usize> = { let mut v: Vec<usize> = b.support_set().into_iter().map(|x| x.to_index()).collect(); v.sort(); v };
        // set_num_vars around the largest used variable and around n
        let top = support.last().map(|x| x + 1).unwrap_or(0);
        for nv in [top.saturating_sub(1), top, top + 1, n + 1 + rng.below(3) as usize, rng.below(n as u64 + 2) as usize] {
            if rng.chance(1, 2) { run("C17.setnv", &[f.clone(), nv.to_string()], out); }
        }
        if rng.chance(1, 50) { run("C17.setnv", &[f.clone(), s("65535")], out); }
        // rename_variable: every pair touching the support's neighbourhood, sampled
        for _ in 0..4 {
            let old = rng.below(n as u64 + 1) as usize;
            let new = rng.below(n as u64 + 1) as usize;
            run("C17.renvar", &[f.clone(), old.to_string(), new.to_string()], out);
        }
        if let Some(x) = support.first() {
            // into a free slot next to a support variable (the accepting case)
            let free: Vec<usize> = (0..n).filter(|y| !support.contains(y)).collect();
            if !free.is_empty() { run("C17.renvar", &[f.clone(), x.to_string(), rng.pick(&free).to_string()], out); }
            let y = *rng.pick(&support);
            if !free.is_empty() { run("C17.renvar", &[f.clone(), y.to_string(), rng.pick(&free).to_string()], out); }
        }
        // rename_variables: order-preserving map of the support onto another subset, then perturbed
        for _ in 0..3 {
            let tsub = random_subset(rng, n, support.len());
            let mut m: Vec<(usize, usize)> = support.iter().cloned().zip(tsub.iter().cloned()).filter(|(a, b)| a != b || rng.chance(1, 4)).collect();
            match rng.below(6) {
                0 => { if m.len() >= 2 { let i = rng.below(m.len() as u64 - 1) as usize; let t = m[i].1; m[i].1 = m[i + 1].1; m[i + 1].1 = t; } }
                1 => { m.push((n, rng.below(n as u64) as usize)); }                       // key num_vars (F7)
                2 => { let free: Vec<usize> = (0..n).filter(|y| !support.contains(y)).collect();
                       if !free.is_empty() { m.push((*rng.pick(&free), rng.below(n as u64 + 1) as usize)); } } // key outside the support
                3 => { if !m.is_empty() { let i = rng.below(m.len() as u64) as usize; m[i].1 = n + rng.below(2) as usize; } } // value out of range
                4 => { if !m.is_empty() { let i = rng.below(m.len() as u64) as usize; let kv = (m[i].0, rng.below(n as u64) as usize); m.push(kv); } } // key inserted twice
                _ => {}
            }
            run("C17.renvars", &[f.clone(), fmt_map(&m)], out);
        }
        // transfer: names x0.., target = sub-sequence containing the support (+ extra names), then perturbed
        let src: Vec<String> = (0..n).map(|i| format!("x{}", i)).collect();
        for _ in 0..3 {
            let mut tgt: Vec<String> = vec![];
            for i in 0..n {
                if rng.chance(1, 4) { tgt.push(format!("y{}", i)); }
                if support.contains(&i) || rng.chance(1, 2) { tgt.push(src[i].clone()); }
            }
            match rng.below(5) {
                0 => { if tgt.len() >= 2 { let i = rng.below(tgt.len() as u64 - 1) as usize; tgt.swap(i, i + 1); } }
                1 => { if !tgt.is_empty() { let i = rng.below(tgt.len() as u64) as usize; tgt.remove(i); } }
                2 => { tgt.reverse(); }
                _ => {}
            }
            run("C17.transfer", &[f.clone(), fmt_names(&src), fmt_names(&tgt)], out);
        }
    }
    // ---------------- an operand with more than 65 536 nodes
    bigs(thorough, rng, out);
    // ---------------- separate stream: inputs that are not valid diagrams (only model agreement is compared)
    for b in INVALID {
        let n: usize = 3;
        for nv in 0..=4 { run("C17.setnv", &[s(b), nv.to_string()], out); }
        for old in 0..=n { for new in 0..=n { run("C17.renvar", &[s(b), old.to_string(), new.to_string()], out); } }
        for m in all_maps(2) { if rng.chance(1, 2) { run("C17.renvars", &[s(b), fmt_map(&m)], out); } }
        for t in &targets { if rng.chance(1, 4) { run("C17.transfer", &[s(b), s("a,b,c"), fmt_names(t)], out); } }
    }
}

fn main() { harness_main(gen, run) }
