//! C06: selection, restriction and picking have their relational meaning.
//!
//! Case kinds (fields: Bdd as `|v,l,h|…|`, literal list `x:b,x:b,…` in the order given to the library
//! (`~` = empty), variable list `3,1,1,0` (`~` = empty), coin flips as a bit string):
//!   C06.coin    flips                => what `gen_bool(0.5)` answered on a `CoinRng` fed with the flips
//!   C06.vsel    bdd x b              => var_select
//!   C06.select  bdd lits             => select
//!   C06.vres    bdd x b              => var_restrict
//!   C06.restrict bdd lits            => restrict
//!   C06.vpick   bdd x                => var_pick
//!   C06.vpickr  bdd x flips          => var_pick_random, number of coins drawn
//!   C06.pick    bdd vars             => pick
//!   C06.pickr   bdd vars flips       => pick_random, number of coins drawn
//!   C06.vex     bdd x                => var_exists   (used inside pick; shared with Model/Relation)
//!   C06.vall    bdd x                => var_for_all
#[path = "../common.rs"]
mod common;
use biodivine_lib_bdd::*;
use common::*;
use rand::Rng;

fn s(x: &str) -> String { x.to_string() }

fn parse_lits(t: &str) -> Vec<(BddVariable, bool)> {
    if t == "~" { return vec![]; }
    t.split(',').map(|p| {
        let mut it = p.split(':');
        let x: usize = it.next().unwrap().parse().unwrap();
        let b = it.next().unwrap() == "1";
        (var(x), b)
    }).collect()
}
fn fmt_lits(l: &[(usize, bool)]) -> String {
    if l.is_empty() { return s("~"); }
    l.iter().map(|(x, b)| format!("{}:{}", x, if *b { 1 } else { 0 })).collect::<Vec<_>>().join(",")
}
fn parse_vars(t: &str) -> Vec<BddVariable> {
    if t == "~" { return vec![]; }
    t.split(',').map(|p| var(p.parse().unwrap())).collect()
}
fn parse_flips(t: &str) -> Vec<bool> {
    if t == "~" { return vec![]; }
    t.chars().map(|c| c == '1').collect()
}

/// Executes one case from its textual inputs and writes the observation.
pub fn run(key: &str, a: &[String], out: &mut Out) {
    match key {
        "C06.coin" => {
            let flips = parse_flips(&a[0]);
            let mut rng = CoinRng::new(flips.clone());
            let got: Vec<bool> = flips.iter().map(|_| rng.gen_bool(0.5)).collect();
            out.case(key, a, &[fmt_bools(&got), rng.pos.to_string()]);
        }
        "C06.vsel" => {
            let b = Bdd::from_string(&a[0]);
            let (x, v) = (var(a[1].parse().unwrap()), a[2] == "1");
            out.case(key, a, &[fmt_res_bdd(&catch(|| b.var_select(x, v)))]);
        }
        "C06.select" => {
            let b = Bdd::from_string(&a[0]);
            let lits = parse_lits(&a[1]);
            out.case(key, a, &[fmt_res_bdd(&catch(|| b.select(&lits)))]);
        }
        "C06.vres" => {
            let b = Bdd::from_string(&a[0]);
            let (x, v) = (var(a[1].parse().unwrap()), a[2] == "1");
            out.case(key, a, &[fmt_res_bdd(&catch(|| b.var_restrict(x, v)))]);
        }
        "C06.restrict" => {
            let b = Bdd::from_string(&a[0]);
            let lits = parse_lits(&a[1]);
            out.case(key, a, &[fmt_res_bdd(&catch(|| b.restrict(&lits)))]);
        }
        "C06.vpick" => {
            let b = Bdd::from_string(&a[0]);
            let x = var(a[1].parse().unwrap());
            out.case(key, a, &[fmt_res_bdd(&catch(|| b.var_pick(x)))]);
        }
        "C06.vpickr" => {
            let b = Bdd::from_string(&a[0]);
            let x = var(a[1].parse().unwrap());
            let mut rng = CoinRng::new(parse_flips(&a[2]));
            let res = catch(|| b.var_pick_random(x, &mut rng));
            out.case(key, a, &[fmt_res_bdd(&res), rng.pos.to_string()]);
        }
        "C06.pick" => {
            let b = Bdd::from_string(&a[0]);
            let vars = parse_vars(&a[1]);
            out.case(key, a, &[fmt_res_bdd(&catch(|| b.pick(&vars)))]);
        }
        "C06.pickr" => {
            let b = Bdd::from_string(&a[0]);
            let vars = parse_vars(&a[1]);
            let mut rng = CoinRng::new(parse_flips(&a[2]));
            let res = catch(|| b.pick_random(&vars, &mut rng));
            out.case(key, a, &[fmt_res_bdd(&res), rng.pos.to_string()]);
        }
        "C06.vex" => {
            let b = Bdd::from_string(&a[0]);
            let x = var(a[1].parse().unwrap());
            out.case(key, a, &[fmt_res_bdd(&catch(|| b.var_exists(x)))]);
        }
        "C06.vall" => {
            let b = Bdd::from_string(&a[0]);
            let x = var(a[1].parse().unwrap());
            out.case(key, a, &[fmt_res_bdd(&catch(|| b.var_for_all(x)))]);
        }
        _ => panic!("unknown key {}", key),
    }
}

/// all partial assignments over n variables as ascending literal lists (3^n of them)
fn all_partials(n: usize) -> Vec<Vec<(usize, bool)>> {
    let mut res = vec![vec![]];
    for x in 0..n {
        let mut next = vec![];
        for p in &res {
            next.push(p.clone());
            let mut q = p.clone(); q.push((x, false)); next.push(q);
            let mut q = p.clone(); q.push((x, true)); next.push(q);
        }
        res = next;
    }
    res
}
fn shuffle<T>(rng: &mut Rng64, v: &mut Vec<T>) {
    for i in (1..v.len()).rev() { let j = rng.below(i as u64 + 1) as usize; v.swap(i, j); }
}
/// the same partial assignment as the library sees it after `from_values`, presented differently: another
/// order, and overwritten earlier literals on the same variables (the LAST one wins)
fn disguise(rng: &mut Rng64, lits: &[(usize, bool)]) -> Vec<(usize, bool)> {
    let mut v: Vec<(usize, bool)> = lits.to_vec();
    shuffle(rng, &mut v);
    let mut pre: Vec<(usize, bool)> = vec![];
    for (x, b) in lits { if rng.chance(1, 2) { pre.push((*x, if rng.bool() { *b } else { !*b })); } }
    shuffle(rng, &mut pre);
    pre.extend(v);
    pre
}
fn all_subsets(n: usize) -> Vec<Vec<usize>> {
    (0..(1usize << n)).map(|m| (0..n).filter(|k| (m >> k) & 1 == 1).collect()).collect()
}
fn random_flips(rng: &mut Rng64, k: usize) -> Vec<bool> { (0..k).map(|_| rng.bool()).collect() }

fn ops_for(b: &str, n: usize, partials: &[Vec<(usize, bool)>], subsets: &[Vec<usize>], rng: &mut Rng64, out: &mut Out,
           p_partial: (u64, u64), p_subset: (u64, u64), all_flips: bool) {
    let bs = s(b);
    for x in 0..n {
        for v in ["0", "1"] {
            run("C06.vsel", &[bs.clone(), x.to_string(), s(v)], out);
            run("C06.vres", &[bs.clone(), x.to_string(), s(v)], out);
            run("C06.vpickr", &[bs.clone(), x.to_string(), s(v)], out);
        }
        run("C06.vpick", &[bs.clone(), x.to_string()], out);
        run("C06.vex", &[bs.clone(), x.to_string()], out);
        run("C06.vall", &[bs.clone(), x.to_string()], out);
    }
    for p in partials {
        if !rng.chance(p_partial.0, p_partial.1) { continue; }
        run("C06.select", &[bs.clone(), fmt_lits(p)], out);
        run("C06.restrict", &[bs.clone(), fmt_lits(p)], out);
        if !p.is_empty() {
            let mut q = p.clone(); q.reverse();
            run("C06.select", &[bs.clone(), fmt_lits(&q)], out);
            run("C06.restrict", &[bs.clone(), fmt_lits(&q)], out);
            let d = disguise(rng, p);
            run("C06.select", &[bs.clone(), fmt_lits(&d)], out);
            let d = disguise(rng, p);
            run("C06.restrict", &[bs.clone(), fmt_lits(&d)], out);
        }
    }
    for vs in subsets {
        if !rng.chance(p_subset.0, p_subset.1) { continue; }
        let mut orders: Vec<Vec<usize>> = vec![vs.clone()];
        if vs.len() > 1 {
            let mut r = vs.clone(); r.reverse(); orders.push(r);
            let mut r = vs.clone(); shuffle(rng, &mut r); orders.push(r);
        }
        for o in &orders {
            run("C06.pick", &[bs.clone(), fmt_usizes(o)], out);
        }
        let o = rng.pick(&orders).clone();
        if all_flips {
            for m in 0..(1usize << vs.len()) {
                let fl: Vec<bool> = (0..vs.len()).map(|k| (m >> k) & 1 == 1).collect();
                run("C06.pickr", &[bs.clone(), fmt_usizes(&o), fmt_bools(&fl)], out);
            }
        } else {
            for _ in 0..2 {
                let fl = random_flips(rng, vs.len());
                run("C06.pickr", &[bs.clone(), fmt_usizes(&o), fmt_bools(&fl)], out);
            }
        }
    }
}

pub fn gen(tier: Tier, rng: &mut Rng64, out: &mut Out) {
    let thorough = tier == Tier::Thorough;
    // the coin convention of `CoinRng` is re-validated on every run
    for t in ["0", "1", "01", "10", "0011010111", "1111100000"] { run("C06.coin", &[s(t)], out); }
    // --- exhaustive small universes: every function over n <= 3 variables
    for n in 0..=3usize {
        let count = 1u64 << (1u64 << n);
        let partials = all_partials(n);
        let subsets = all_subsets(n);
        for t in 0..count {
            let b = fmt_bdd(&bdd_of_tt(n, &tt_from_index(n, t)));
            let full = thorough || n < 3;
            ops_for(&b, n, &partials, &subsets, rng, out,
                    if full { (1, 1) } else { (1, 4) }, if full { (1, 1) } else { (1, 2) }, full);
        }
    }
    // --- random larger operands (shared sub-diagrams, skipped levels)
    let rounds = if thorough { 30000 } else { 700 };
    for _ in 0..rounds {
        let n = 4 + rng.below(3) as usize;
        let bdd = random_bdd(rng, n);
        let b = fmt_bdd(&bdd);
        // a handful of random partial assignments and subsets
        for _ in 0..3 {
            let mut p: Vec<(usize, bool)> = vec![];
            for x in 0..n { if rng.chance(2, 5) { p.push((x, rng.bool())); } }
            let d = disguise(rng, &p);
            run("C06.select", &[b.clone(), fmt_lits(&d)], out);
            let d = disguise(rng, &p);
            run("C06.restrict", &[b.clone(), fmt_lits(&d)], out);
            let mut vs: Vec<usize> = (0..n).filter(|_| rng.chance(2, 5)).collect();
            shuffle(rng, &mut vs);
            run("C06.pick", &[b.clone(), fmt_usizes(&vs)], out);
            let fl = random_flips(rng, vs.len());
            run("C06.pickr", &[b.clone(), fmt_usizes(&vs), fmt_bools(&fl)], out);
        }
        let x = rng.below(n as u64) as usize;
        let v = if rng.bool() { "1" } else { "0" };
        run("C06.vsel", &[b.clone(), x.to_string(), s(v)], out);
        run("C06.vres", &[b.clone(), x.to_string(), s(v)], out);
        run("C06.vpick", &[b.clone(), x.to_string()], out);
        run("C06.vpickr", &[b.clone(), x.to_string(), s(v)], out);
        run("C06.vex", &[b.clone(), x.to_string()], out);
        run("C06.vall", &[b.clone(), x.to_string()], out);
    }
}

fn main() { harness_main(gen, run) }
