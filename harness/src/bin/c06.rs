//! C06: selection, restriction and picking have their relational meaning.
//!
//! Case kinds (fields: Bdd as `|v,l,h|…|`, literal list `x:b,x:b,…` in the order given to the library
//! (`~` = empty), variable list `3,1,1,0` (`~` = empty), coin flips as a bit string):
//!   C06.coin    flips                => what `gen_bool(0.5)` answered on a `CoinRng` fed with the flips
//!   C06.vsel    bdd x b              => var_select
//!   C06.select  bdd lits             => select
//!   C06.vres    bdd x b              => var_restrict
//!   C06.restrict bdd lits            => restrict
//!   C06.vpick   bdd x                => var_pick
//!   C06.vpickr  bdd x flips          => var_pick_random, number of coins drawn
//!   C06.pick    bdd vars             => pick
//!   C06.pickr   bdd vars flips       => pick_random, number of coins drawn
//!   C06.vex     bdd x                => var_exists   (used inside pick; shared with Model/Relation)
//!   C06.vall    bdd x                => var_for_all
#[path = "../common.rs"]
mod common;
use biodivine_lib_bdd::*;
use common::*;
use rand::Rng;

fn s(x: &str) -> String { x.to_string() }

fn parse_lits(t: &str) -> Vec<(BddVariable, bool)> {
    if t == "~" { return vec![]; }
    t.split(',').map(|p| {
        let mut it = p.split(':');
        let x: usize = it.next().unwrap().parse().unwrap();
        let b = it.next().unwrap() == "1";
        (var(x), b)
    }).collect()
}
fn fmt_lits(l: &[(usize, bool)]) -> String {
    if l.is_empty() { return s("~"); }
    l.iter().map(|(x, b)| format!("{}:{}", x, if *b { 1 } else { 0 })).collect::<Vec<_>>().join(",")
}
fn parse_vars(t: &str) -> Vec<BddVariable> {
    if t == "~" { return vec![]; }
    t.split(',').map(|p| var(p.parse().unwrap())).collect()
}
fn parse_flips(t: &str) -> Vec<bool> {
    if t == "~" { return vec![]; }
    t.chars().map(|c| c == '1').collect()
}

/// Executes one case from its textual inputs and writes the observation.
pub fn run(key: &str, a: &[String], out: &mut Out) {
    out.begin(key, a);
    match key {
        "C06.coin" => {
            let flips = parse_flips(&a[0]);
            let mut rng = CoinRng::new(flips.clone());
            let got: Vec<bool> = flips.iter().map(|_| rng.gen_bool(0.5)).collect();
            out.case(key, a, &[fmt_bools(&got), rng.pos.to_string()]);
        }
        "C06.vsel" => {
            let b = Bdd::from_string(&a[0]);
            let (x, v) = (var(a[1].parse().unwrap()), a[2] == "1");
            out.case(key, a, &[fmt_res_bdd(&catch(|| b.var_select(x, v)))]);
        }
        "C06.select" => {
            let b = Bdd::from_string(&a[0]);
            let lits = parse_lits(&a[1]);
            out.case(key, a, &[fmt_res_bdd(&catch(|| b.select(&lits)))]);
        }
        "C06.vres" => {
            let b = Bdd::from_string(&a[0]);
            let (x, v) = (var(a[1].parse().unwrap()), a[2] == "1");
            out.case(key, a, &[fmt_res_bdd(&catch(|| b.var_restrict(x, v)))]);
        }
        "C06.restrict" => {
            let b = Bdd::from_string(&a[0]);
            let lits = parse_lits(&a[1]);
            out.case(key, a, &[fmt_res_bdd(&catch(|| b.restrict(&lits)))]);
        }
        "C06.vpick" => {
            let b = Bdd::from_string(&a[0]);
            let x = var(a[1].parse().unwrap());
            out.case(key, a, &[fmt_res_bdd(&catch(|| b.var_pick(x)))]);
        }
        "C06.vpickr" => {
            let b = Bdd::from_string(&a[0]);
            let x = var(a[1].parse().unwrap());
            let mut rng = CoinRng::new(parse_flips(&a[2]));
            let res = catch(|| b.var_pick_random(x, &mut rng));
            out.case(key, a, &[fmt_res_bdd(&res), rng.pos.to_string()]);
        }
        "C06.pick" => {
            let b = Bdd::from_string(&a[0]);
            let vars = parse_vars(&a[1]);
            out.case(key, a, &[fmt_res_bdd(&catch(|| b.pick(&vars)))]);
        }
        "C06.pickr" => {
            let b = Bdd::from_string(&a[0]);
            let vars = parse_vars(&a[1]);
            let mut rng = CoinRng::new(parse_flips(&a[2]));
            let res = catch(|| b.pick_random(&vars, &mut rng));
            out.case(key, a, &[fmt_res_bdd(&res), rng.pos.to_string()]);
        }
        "C06.vex" => {
            let b = Bdd::from_string(&a[0]);
            let x = var(a[1].parse().unwrap());
            out.case(key, a, &[fmt_res_bdd(&catch(|| b.var_exists(x)))]);
        }
        "C06.vall" => {
            let b = Bdd::from_string(&a[0]);
            let x = var(a[1].parse().unwrap());
            out.case(key, a, &[fmt_res_bdd(&catch(|| b.var_for_all(x)))]);
        }
        _ => panic!("unknown key {}", key),
    }
}

/// all partial assignments over n variables as ascending literal lists (3^n of them)
fn all_partials(n: usize) -> Vec<Vec<(usize, bool)>> {
    let mut res = vec![vec![]];
    for x in 0..n {
        let mut next = vec![];
        for p in &res {
            next.push(p.clone());
            let mut q = p.clone(); q.push((x, false)); next.push(q);
            let mut q = p.clone(); q.push((x, true)); next.push(q);
        }
        res = next;
    }
    res
}
fn shuffle<T>(rng: &mut Rng64, v: &mut Vec<T>) {
    for i in (1..v.len()).rev() { let j = rng.below(i as u64 + 1) as usize; v.swap(i, j); }
}
/// the same partial assignment as the library sees it after `from_values`, presented differently: another
/// order, and overwritten earlier literals on the same variables (the LAST one wins)
fn disguise(rng: &mut Rng64, lits: &[(usize, bool)]) -> Vec<(usize, bool)> {
    let mut v: Vec<(usize, bool)> = lits.to_vec();
    shuffle(rng, &mut v);
    let mut pre: Vec<(usize, bool)> = vec![];
    for (x, b) in lits { if rng.chance(1, 2) { pre.push((*x, if rng.bool() { *b } else { !*b })); } }
    shuffle(rng, &mut pre);
    pre.extend(v);
    pre
}
fn all_subsets(n: usize) -> Vec<Vec<usize>> {
    (0..(1usize << n)).map(|m| (0..n).filter(|k| (m >> k) & 1 == 1).collect()).collect()
}
fn random_flips(rng: &mut Rng64, k: usize) -> Vec<bool> { (0..k).map(|_| rng.bool()).collect() }

/// all orders of a list (k! of them; k <= 4 here)
fn permutations<T: Clone>(v: &[T]) -> Vec<Vec<T>> {
    if v.len() <= 1 { return vec![v.to_vec()]; }
    let mut res = vec![];
    for i in 0..v.len() {
        let mut rest = v.to_vec();
        let x = rest.remove(i);
        for mut p in permutations(&rest) { p.insert(0, x.clone()); res.push(p); }
    }
    res
}

/// everything about one operand over a small universe: every variable, every partial assignment in EVERY order
/// (plus disguised presentations with overwritten literals), every variable subset in EVERY order, every coin list
fn ops_for(b: &str, n: usize, partials: &[Vec<(usize, bool)>], subsets: &[Vec<usize>], rng: &mut Rng64, out: &mut Out) {
    let bs = s(b);
    for x in 0..n {
        for v in ["0", "1"] {
            run("C06.vsel", &[bs.clone(), x.to_string(), s(v)], out);
            run("C06.vres", &[bs.clone(), x.to_string(), s(v)], out);
            run("C06.vpickr", &[bs.clone(), x.to_string(), s(v)], out);
        }
        run("C06.vpick", &[bs.clone(), x.to_string()], out);
        run("C06.vex", &[bs.clone(), x.to_string()], out);
        run("C06.vall", &[bs.clone(), x.to_string()], out);
    }
    for p in partials {
        for q in permutations(p) {
            run("C06.select", &[bs.clone(), fmt_lits(&q)], out);
            run("C06.restrict", &[bs.clone(), fmt_lits(&q)], out);
        }
        if !p.is_empty() && rng.chance(1, 3) {
            let d = disguise(rng, p);
            run("C06.select", &[bs.clone(), fmt_lits(&d)], out);
            let d = disguise(rng, p);
            run("C06.restrict", &[bs.clone(), fmt_lits(&d)], out);
        }
    }
    for vs in subsets {
        let orders = permutations(vs);
        for o in &orders {
            run("C06.pick", &[bs.clone(), fmt_usizes(o)], out);
        }
        for m in 0..(1usize << vs.len()) {
            let o = rng.pick(&orders).clone();
            let fl: Vec<bool> = (0..vs.len()).map(|k| (m >> k) & 1 == 1).collect();
            run("C06.pickr", &[bs.clone(), fmt_usizes(&o), fmt_bools(&fl)], out);
        }
    }
}

/// operands with more than 65 536 nodes (pointers and memo keys beyond 16 bits): dense pseudo-random functions
/// over 20 variables (~107 000 nodes); every operation of the family once or twice on each
fn big_jobs(rng: &mut Rng64, operands: usize) -> Vec<(&'static str, Vec<String>)> {
    let n = 20usize;
    let mut jobs: Vec<(&'static str, Vec<String>)> = vec![];
    for k in 0..operands {
        let tt: Vec<bool> = (0..(1usize << n)).map(|_| rng.bool()).collect();
        let b = fmt_bdd(&bdd_of_tt(n, &tt));
        let x = if k == 0 { 0 } else { rng.below(n as u64) as usize };
        let mut y = rng.below(n as u64) as usize;
        if y == x { y = (x + 7) % n; }
        let z = (x + y + 1 + rng.below(5) as usize) % n;
        let (bx, by, bz) = (rng.bool(), rng.bool(), rng.bool());
        jobs.push(("C06.vsel", vec![b.clone(), x.to_string(), s("1")]));
        jobs.push(("C06.vsel", vec![b.clone(), (n / 2 + k).to_string(), s("0")]));
        jobs.push(("C06.select", vec![b.clone(), fmt_lits(&[(y, by), (x, bx), (z, bz), (y, !by)])]));
        jobs.push(("C06.vres", vec![b.clone(), y.to_string(), s(if by { "1" } else { "0" })]));
        jobs.push(("C06.restrict", vec![b.clone(), fmt_lits(&[(y, by), (x, !bx), (x, bx)])]));
        jobs.push(("C06.vpick", vec![b.clone(), x.to_string()]));
        jobs.push(("C06.vpickr", vec![b.clone(), y.to_string(), s("1")]));
        jobs.push(("C06.pick", vec![b.clone(), fmt_usizes(&[y, x])]));
        jobs.push(("C06.pickr", vec![b.clone(), fmt_usizes(&[x, y, x]), fmt_bools(&[rng.bool(), rng.bool()])]));
    }
    jobs
}

/// Library-independent builder of few-node diagrams over MANY variables: hash-consed reduced DAG pieces
/// (truth tables over a handful of chosen variable positions, and/or-chains of literals) composed bottom-up
/// (higher variables first), then laid out in DFS post-order taking the HIGH child first.
struct Dag { n: usize, nodes: Vec<(usize, usize, usize)>, idx: std::collections::HashMap<(usize, usize, usize), usize> }
impl Dag {
    fn new(n: usize) -> Dag { Dag { n, nodes: vec![(n, 0, 0), (n, 1, 1)], idx: std::collections::HashMap::new() } }
    fn mk(&mut self, v: usize, lo: usize, hi: usize) -> usize {
        if lo == hi { return lo; }
        if let Some(i) = self.idx.get(&(v, lo, hi)) { return *i; }
        self.nodes.push((v, lo, hi));
        self.idx.insert((v, lo, hi), self.nodes.len() - 1);
        self.nodes.len() - 1
    }
    /// the function with truth table `tt` over the ascending variable positions `pos`, with the terminals
    /// 0 / 1 replaced by the pointers `t0` / `t1` (which must only mention variables above `pos`)
    fn add_tt(&mut self, pos: &[usize], tt: &[bool], t0: usize, t1: usize) -> usize {
        let tri = canon_triples(pos.len(), tt);
        if tri.len() == 1 { return t0; }
        let mut map: Vec<usize> = vec![t0, t1];
        for (v, lo, hi) in tri.iter().skip(2) {
            let p = self.mk(pos[*v], map[*lo], map[*hi]);
            map.push(p);
        }
        *map.last().unwrap()
    }
    /// and-chain: all literals hold -> `then_t`, the first failing one -> `else_t`;
    /// or-chain: the first literal that holds -> `then_t`, all fail -> `else_t` (literals ascending)
    fn add_chain(&mut self, lits: &[(usize, bool)], and: bool, then_t: usize, else_t: usize) -> usize {
        let mut cur = if and { then_t } else { else_t };
        for (x, b) in lits.iter().rev() {
            let (go_on, exit) = (cur, if and { else_t } else { then_t });
            // and: literal true -> go on; or: literal true -> exit
            let (when_true, when_false) = if and { (go_on, exit) } else { (exit, go_on) };
            cur = if *b { self.mk(*x, when_false, when_true) } else { self.mk(*x, when_true, when_false) };
        }
        cur
    }
    fn finish(&self, root: usize) -> Bdd {
        if root == 0 { return bdd_from_triples(&[(self.n, 0, 0)]); }
        let mut out = vec![(self.n, 0, 0), (self.n, 1, 1)];
        let mut new_id: std::collections::HashMap<usize, usize> = std::collections::HashMap::new();
        new_id.insert(0, 0); new_id.insert(1, 1);
        fn go(d: &Dag, p: usize, out: &mut Vec<(usize, usize, usize)>, new_id: &mut std::collections::HashMap<usize, usize>) -> usize {
            if let Some(i) = new_id.get(&p) { return *i; }
            let (v, lo, hi) = d.nodes[p];
            let h = go(d, hi, out, new_id);
            let l = go(d, lo, out, new_id);
            out.push((v, l, h));
            new_id.insert(p, out.len() - 1);
            out.len() - 1
        }
        go(self, root, &mut out, &mut new_id);
        bdd_from_triples(&out)
    }
}

/// ascending sample of `k` distinct positions out of `lo..hi`
fn positions(rng: &mut Rng64, lo: usize, hi: usize, k: usize) -> Vec<usize> {
    let mut all: Vec<usize> = (lo..hi).collect();
    shuffle(rng, &mut all);
    all.truncate(k.min(hi - lo));
    all.sort();
    all
}

/// one few-node set over `n` variables (n >= 54); returns the diagram and its support
fn wide_set(rng: &mut Rng64, n: usize, shape: u64) -> (Bdd, Vec<usize>) {
    let mut d = Dag::new(n);
    let root = match shape {
        0 => {
            // a cube of 1..70 literals, sometimes touching the first / last variable
            let k = 1 + rng.below(70.min(n as u64)) as usize;
            let mut pos = positions(rng, 0, n, k);
            if rng.bool() { pos[0] = 0; }
            if rng.bool() { let l = pos.len() - 1; if l > 0 || pos[0] != 0 { pos[l] = n - 1; } }
            pos.sort(); pos.dedup();
            let lits: Vec<(usize, bool)> = pos.iter().map(|x| (*x, rng.bool())).collect();
            d.add_chain(&lits, true, 1, 0)
        }
        1 => {
            // union of 2-3 short cubes (and other small functions) on <= 10 scattered variables
            let k = 2 + rng.below(9) as usize;
            let pos = positions(rng, 0, n, k);
            let k = pos.len();
            let cubes = 2 + rng.below(2) as usize;
            let mut tt = vec![false; 1 << k];
            for _ in 0..cubes {
                let m = rng.next() as usize & ((1 << k) - 1); let v = rng.next() as usize & m;
                for i in 0..(1usize << k) { if i & m == v { tt[i] = true; } }
            }
            d.add_tt(&pos, &tt, 0, 1)
        }
        2 => {
            // small random DAG on <= 10 support variables
            let k = 1 + rng.below(10) as usize;
            let pos = positions(rng, 0, n, k);
            let tt = random_tt(rng, pos.len());
            d.add_tt(&pos, &tt, 0, 1)
        }
        3 | 4 => {
            // "one long cube or one short clause": counts 2^k +- small. The long cube takes 52..69 variables (or
            // n - 1 of them), the short clause 1-2 variables placed above, below or inside the cube's range.
            let long = (n - 1).min(if shape == 3 { 52 + rng.below(18) as usize } else { 53 + rng.below(12) as usize });
            let start = if rng.bool() { 0 } else { rng.below((n - long) as u64) as usize };
            let clause_after = rng.bool() && start + long < n;
            let cube: Vec<(usize, bool)> = (start..start + long).map(|x| (x, shape == 4 || rng.chance(3, 4))).collect();
            if clause_after {
                let c = if rng.bool() { n - 1 } else { start + long + rng.below((n - start - long) as u64) as usize };
                let clause = d.add_chain(&[(c, rng.bool())], false, 1, 0);
                d.add_chain(&cube, true, 1, clause)
            } else if start > 0 {
                let c = if rng.bool() { 0 } else { rng.below(start as u64) as usize };
                let cube_root = d.add_chain(&cube, true, 1, 0);
                d.add_chain(&[(c, rng.bool())], false, 1, cube_root)
            } else {
                // clause on the last cube variable's neighbour: cube over start.., clause = the variable after
                let c = (start + long).min(n - 1);
                let cube2: Vec<(usize, bool)> = cube.iter().cloned().filter(|l| l.0 != c).collect();
                let clause = d.add_chain(&[(c, false)], false, 1, 0);
                d.add_chain(&cube2, true, 1, clause)
            }
        }
        5 => {
            // a long clause (complement of a cube): count 2^n - 2^(n-k)
            let k = 2 + rng.below(66) as usize;
            let pos = positions(rng, 0, n, k);
            let lits: Vec<(usize, bool)> = pos.iter().map(|x| (*x, rng.bool())).collect();
            d.add_chain(&lits, false, 1, 0)
        }
        6 => {
            // long cube AND / OR a small function on higher variables
            let long = 20 + rng.below(40) as usize;
            let cube: Vec<(usize, bool)> = positions(rng, 0, n - 12, long).into_iter().map(|x| (x, rng.bool())).collect();
            let top = cube.last().unwrap().0 + 1;
            let kk = 1 + rng.below(6) as usize;
            let pos = positions(rng, top, n, kk);
            let tt = random_tt(rng, pos.len());
            let g = d.add_tt(&pos, &tt, 0, 1);
            if rng.bool() { d.add_chain(&cube, true, g, 0) } else { d.add_chain(&cube, true, 1, g) }
        }
        _ => {
            // a small function on LOW variables whose 1-terminal is replaced by a cube on higher variables and
            // whose 0-terminal by a short clause there
            let kk = 1 + rng.below(5) as usize;
            let pos = positions(rng, 0, 20, kk);
            let tt = random_tt(rng, pos.len());
            let kc = 1 + rng.below(40) as usize;
            let cube: Vec<(usize, bool)> = positions(rng, 20, n, kc).into_iter().map(|x| (x, rng.bool())).collect();
            let t1 = d.add_chain(&cube, true, 1, 0);
            let t0 = if rng.bool() { 0 } else { let c = 20 + rng.below((n - 20) as u64) as usize; d.add_chain(&[(c, rng.bool())], false, 1, 0) };
            d.add_tt(&pos, &tt, t0, t1)
        }
    };
    let bdd = d.finish(root);
    let mut support: Vec<usize> = bdd.clone().to_nodes().iter().skip(2).map(|x| x.var.to_index()).collect();
    support.sort(); support.dedup();
    assert!(support.iter().all(|x| *x < n), "harness bug: wide set mentions a variable outside its variable set");
    (bdd, support)
}

/// the whole family on one wide set: selected / restricted / picked variables inside and outside the support,
/// first and last variable, lists covering all support variables
fn wide_ops(bdd: &Bdd, support: &[usize], rng: &mut Rng64, out: &mut Out) {
    let n = bdd.num_vars() as usize;
    let b = fmt_bdd(bdd);
    let inside = |rng: &mut Rng64| if support.is_empty() { rng.below(n as u64) as usize } else { *rng.pick(support) };
    let outside = |rng: &mut Rng64| { for _ in 0..50 { let x = rng.below(n as u64) as usize; if !support.contains(&x) { return x; } } n - 1 };
    let first_s = support.first().cloned().unwrap_or(0);
    let last_s = support.last().cloned().unwrap_or(n - 1);
    let bit = |v: bool| s(if v { "1" } else { "0" });
    let mut xs: Vec<usize> = vec![first_s, last_s, inside(rng), outside(rng), 0, n - 1];
    xs.sort(); xs.dedup();
    for x in &xs {
        let v = rng.bool();
        run("C06.vsel", &[b.clone(), x.to_string(), bit(v)], out);
        run("C06.vres", &[b.clone(), x.to_string(), bit(!v)], out);
        run("C06.vpick", &[b.clone(), x.to_string()], out);
        run("C06.vpickr", &[b.clone(), x.to_string(), bit(rng.bool())], out);
        run("C06.vex", &[b.clone(), x.to_string()], out);
        if rng.chance(1, 3) { run("C06.vall", &[b.clone(), x.to_string()], out); }
    }
    for _ in 0..2 {
        let mut lits: Vec<(usize, bool)> = vec![(inside(rng), rng.bool()), (outside(rng), rng.bool()), (inside(rng), rng.bool())];
        if rng.bool() { lits.push((last_s, rng.bool())); }
        if rng.bool() { lits.push((0, rng.bool())); }
        let d = disguise(rng, &lits);
        run("C06.select", &[b.clone(), fmt_lits(&d)], out);
        let d = disguise(rng, &lits);
        run("C06.restrict", &[b.clone(), fmt_lits(&d)], out);
    }
    // selecting / restricting every support variable to a satisfying-looking or random value
    if !support.is_empty() && support.len() <= 80 {
        let lits: Vec<(usize, bool)> = support.iter().map(|x| (*x, rng.bool())).collect();
        run("C06.select", &[b.clone(), fmt_lits(&lits)], out);
        let mut r = lits.clone(); r.reverse();
        run("C06.restrict", &[b.clone(), fmt_lits(&r)], out);
    }
    let mut lists: Vec<Vec<usize>> = vec![
        vec![last_s], vec![first_s], vec![outside(rng)], vec![last_s, first_s], vec![n - 1, 0],
        vec![inside(rng), outside(rng), inside(rng)],
    ];
    if support.len() <= 80 {
        let mut all = support.to_vec(); shuffle(rng, &mut all); lists.push(all.clone());
        all.push(outside(rng)); all.push(outside(rng)); if let Some(x) = support.first() { all.push(*x); }
        shuffle(rng, &mut all); lists.push(all);
        if support.len() > 2 { let mut most = support.to_vec(); most.remove(rng.below(most.len() as u64) as usize); lists.push(most); }
    }
    for l in &lists {
        run("C06.pick", &[b.clone(), fmt_usizes(l)], out);
        let fl = random_flips(rng, l.len());
        run("C06.pickr", &[b.clone(), fmt_usizes(l), fmt_bools(&fl)], out);
    }
}

/// WIDE operands: few nodes, many variables (counts far beyond 2^53 and, from 1 100 variables on, beyond f64);
/// set number `k` of the stream
fn wide_one(rng: &mut Rng64, k: usize, out: &mut Out) {
    let n = match k % 8 { 0 => 54, 1 => 55 + rng.below(16) as usize, 2 => 64, 3 => 130, 4 => 1100, 5 => 5000, 6 => 54 + rng.below(17) as usize, _ => 1025 + rng.below(200) as usize };
    let shape = (k as u64 / 8 + rng.below(8)) % 8;
    let (bdd, support) = wide_set(rng, n, shape);
    if std::env::var("C06_DEBUG").is_ok() { eprintln!("wide k={} n={} shape={} {}", k, n, shape, fmt_bdd(&bdd)); }
    wide_ops(&bdd, &support, rng, out);
}
/// constants over many variables: pick over everything / nothing, select, restrict
fn wide_constants(rng: &mut Rng64, out: &mut Out) {
    for n in [54usize, 70, 1100] {
        for c in [false, true] {
            let d = Dag::new(n);
            let bdd = d.finish(if c { 1 } else { 0 });
            wide_ops(&bdd, &[], rng, out);
            let all: Vec<usize> = (0..n).rev().collect();
            let b = fmt_bdd(&bdd);
            run("C06.pick", &[b.clone(), fmt_usizes(&all)], out);
            let fl = random_flips(rng, n);
            run("C06.pickr", &[b.clone(), fmt_usizes(&all), fmt_bools(&fl)], out);
        }
    }
}

pub fn gen(tier: Tier, rng: &mut Rng64, out: &mut Out) {
    let thorough = tier == Tier::Thorough;
    // the big-operand cases are spread over the stream of small cases so that the runner's shards share them
    let mut bigs = big_jobs(rng, if thorough { 6 } else { 2 });
    bigs.reverse();
    let mut wide_k = 0usize;
    // the coin convention of `CoinRng` is re-validated on every run
    for t in ["0", "1", "01", "10", "0011010111", "1111100000"] { run("C06.coin", &[s(t)], out); }
    // --- exhaustive small universes (both tiers): every function over n <= 3 variables x every partial
    //     assignment in every order x every variable subset in every order x every coin list
    for n in 0..=3usize {
        let count = 1u64 << (1u64 << n);
        let partials = all_partials(n);
        let subsets = all_subsets(n);
        for t in 0..count {
            let b = fmt_bdd(&bdd_of_tt(n, &tt_from_index(n, t)));
            ops_for(&b, n, &partials, &subsets, rng, out);
            if n == 3 && !thorough && t % 15 == 7 {
                if let Some((key, args)) = bigs.pop() { run(key, &args, out); }
            }
            // wide operands, spread over the stream as well (quick: 96 sets here; thorough: 96 here + 1 500 below)
            if n == 3 && t % 8 < 3 { wide_one(rng, wide_k, out); wide_k += 1; }
        }
    }
    if !thorough { while let Some((key, args)) = bigs.pop() { run(key, &args, out); } }
    wide_constants(rng, out);
    // --- thorough: a sample of the functions over 4 variables with the same treatment, and the one-variable
    //     restrict / pick on ALL 65 536 functions over 4 variables
    if thorough {
        let partials = all_partials(4);
        let subsets = all_subsets(4);
        for i in 0..1500 {
            let b = fmt_bdd(&bdd_of_tt(4, &tt_from_index(4, rng.below(65536))));
            ops_for(&b, 4, &partials, &subsets, rng, out);
            // the expensive cases of the thorough tier are spread over this long stretch (all shards of the runner)
            wide_one(rng, wide_k, out); wide_k += 1;
            if i % 25 == 3 { if let Some((key, args)) = bigs.pop() { run(key, &args, out); } }
        }
        while let Some((key, args)) = bigs.pop() { run(key, &args, out); }
        for t in 0..65536u64 {
            let b = fmt_bdd(&bdd_of_tt(4, &tt_from_index(4, t)));
            for x in 0..4usize {
                run("C06.vres", &[b.clone(), x.to_string(), s("0")], out);
                run("C06.vres", &[b.clone(), x.to_string(), s("1")], out);
                run("C06.vpick", &[b.clone(), x.to_string()], out);
            }
        }
    }
    // --- repeated variables in the pick list (the slice denotes a set), adjacent and NON-adjacent repeats:
    //     every list of length 2..4 with a repetition; all of them over n <= 2, three fixed ones + a sample over n = 3
    for n in 1..=3usize {
        let count = 1u64 << (1u64 << n);
        let mut lists: Vec<Vec<usize>> = vec![];
        for a in 0..n { for b in 0..n {
            lists.push(vec![a, b]);
            for c in 0..n {
                lists.push(vec![a, b, c]);
                for d in 0..n { lists.push(vec![a, b, c, d]); }
            }
        } }
        lists.retain(|l| { let mut d = l.clone(); d.sort(); d.dedup(); d.len() < l.len() });
        let fixed: Vec<Vec<usize>> = vec![vec![0, 1, 0], vec![2, 0, 2, 1], vec![1, 2, 1, 0], vec![2, 2], vec![1, 0, 0, 1]];
        for t in 0..count {
            let b = fmt_bdd(&bdd_of_tt(n, &tt_from_index(n, t)));
            for l in &lists {
                let always = n < 3 || fixed.contains(l);
                if !always && !thorough && !rng.chance(1, 10) { continue; }
                run("C06.pick", &[b.clone(), fmt_usizes(l)], out);
                let fl = random_flips(rng, l.len());
                run("C06.pickr", &[b.clone(), fmt_usizes(l), fmt_bools(&fl)], out);
            }
        }
    }
    // --- random larger operands (shared sub-diagrams, skipped levels), some of them valid but non-canonical
    let rounds = if thorough { 30000 } else { 700 };
    for _ in 0..rounds {
        let n = 4 + rng.below(3) as usize;
        let mut bdd = random_bdd(rng, n);
        if rng.chance(1, 6) { bdd = noncanon_variant(rng, &bdd); }
        let b = fmt_bdd(&bdd);
        // a handful of random partial assignments and subsets
        for _ in 0..3 {
            let mut p: Vec<(usize, bool)> = vec![];
            for x in 0..n { if rng.chance(2, 5) { p.push((x, rng.bool())); } }
            let d = disguise(rng, &p);
            run("C06.select", &[b.clone(), fmt_lits(&d)], out);
            let d = disguise(rng, &p);
            run("C06.restrict", &[b.clone(), fmt_lits(&d)], out);
            let mut vs: Vec<usize> = (0..n).filter(|_| rng.chance(2, 5)).collect();
            if !vs.is_empty() && rng.chance(1, 4) { let extra = *rng.pick(&vs); vs.push(extra); }
            shuffle(rng, &mut vs);
            run("C06.pick", &[b.clone(), fmt_usizes(&vs)], out);
            let fl = random_flips(rng, vs.len());
            run("C06.pickr", &[b.clone(), fmt_usizes(&vs), fmt_bools(&fl)], out);
        }
        let x = rng.below(n as u64) as usize;
        let v = if rng.bool() { "1" } else { "0" };
        run("C06.vsel", &[b.clone(), x.to_string(), s(v)], out);
        run("C06.vres", &[b.clone(), x.to_string(), s(v)], out);
        run("C06.vpick", &[b.clone(), x.to_string()], out);
        run("C06.vpickr", &[b.clone(), x.to_string(), s(v)], out);
        run("C06.vex", &[b.clone(), x.to_string()], out);
        run("C06.vall", &[b.clone(), x.to_string()], out);
    }
    // --- too few coins: `CoinRng` answers `false` when its list is exhausted (the model's `drawCoin` too)
    for _ in 0..(if thorough { 400 } else { 40 }) {
        let n = 2 + rng.below(3) as usize;
        let b = fmt_bdd(&random_bdd(rng, n));
        let vs: Vec<usize> = (0..n).collect();
        let k = rng.below(n as u64) as usize;
        let fl = random_flips(rng, k);
        run("C06.pickr", &[b.clone(), fmt_usizes(&vs), fmt_bools(&fl)], out);
    }
    // --- separate stream: variables outside the variable set. The property requires nothing there (the driver evaluates
    //     no clause, only model agreement). Kept to inputs on which the library answers deterministically and at once:
    //     `var_exists` / `var_for_all` check the bound first (any index >= num_vars panics), `restrict` ignores such
    //     literals, and the pick family gets the index EXACTLY = num_vars, where the inner `var_select` still terminates
    //     and `check_flip_bounds` then panics — also if the order of `var_exists` / `var_pick` inside pick is changed.
    //     (`var_select` / `select` / `var_pick` with an index ABOVE num_vars never return and allocate without bound:
    //     such inputs are in no stream.)
    for _ in 0..(if thorough { 600 } else { 60 }) {
        let n = rng.below(5) as usize;
        let b = fmt_bdd(&random_bdd(rng, n));
        let big = n + rng.below(4) as usize;
        run("C06.vex", &[b.clone(), big.to_string()], out);
        run("C06.vall", &[b.clone(), big.to_string()], out);
        run("C06.vpick", &[b.clone(), n.to_string()], out);
        run("C06.vpickr", &[b.clone(), n.to_string(), s("1")], out);
        let mut vs: Vec<usize> = (0..n).filter(|_| rng.bool()).collect();
        vs.push(n);
        shuffle(rng, &mut vs);
        run("C06.pick", &[b.clone(), fmt_usizes(&vs)], out);
        let fl = random_flips(rng, vs.len());
        run("C06.pickr", &[b.clone(), fmt_usizes(&vs), fmt_bools(&fl)], out);
        let mut p: Vec<(usize, bool)> = vec![];
        for x in 0..n { if rng.chance(1, 3) { p.push((x, rng.bool())); } }
        p.push((big, rng.bool()));
        p.push((big + 40, rng.bool()));
        shuffle(rng, &mut p);
        run("C06.restrict", &[b.clone(), fmt_lits(&p)], out);
        run("C06.vres", &[b.clone(), big.to_string(), s("1")], out);
    }
}

/// Safety net: an address-space cap for the generator process, so that a library change which makes some call
/// allocate without bound ends this process (reported by the runner) instead of exhausting the machine.
/// (`setrlimit` of the platform C library, declared here because no `libc` crate is a dependency.)
fn cap_memory(bytes: u64) {
    #[repr(C)]
    struct RLimit { cur: u64, max: u64 }
    extern "C" { fn setrlimit(resource: i32, rlim: *const RLimit) -> i32; }
    const RLIMIT_AS: i32 = 9; // Linux
    let lim = RLimit { cur: bytes, max: bytes };
    if cfg!(target_os = "linux") { unsafe { setrlimit(RLIMIT_AS, &lim); } }
}

fn main() {
    let cap: u64 = std::env::var("VERIF_MEM_CAP_MB").ok().and_then(|s| s.parse().ok()).unwrap_or(6144);
    cap_memory(cap << 20);
    harness_main(gen, run)
}
