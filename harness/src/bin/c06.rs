//! C06: selection, restriction and picking have their relational meaning.
//!
//! Case kinds (fields: Bdd as `|v,l,h|…|`, literal list `x:b,x:b,…` in the order given to the library
//! (`~` = empty), variable list `3,1,1,0` (`~` = empty), coin flips as a bit string):
//!   C06.coin    flips                => what `gen_bool(0.5)` answered on a `CoinRng` fed with the flips
//!   C06.vsel    bdd x b              => var_select
//!   C06.select  bdd lits             => select
//!   C06.vres    bdd x b              => var_restrict
//!   C06.restrict bdd lits            => restrict
//!   C06.vpick   bdd x                => var_pick
//!   C06.vpickr  bdd x flips          => var_pick_random, number of coins drawn
//!   C06.pick    bdd vars             => pick
//!   C06.pickr   bdd vars flips       => pick_random, number of coins drawn
//!   C06.vex     bdd x                => var_exists   (used inside pick; shared with Model/Relation)
//!   C06.vall    bdd x                => var_for_all
#[path = "../common.rs"]
mod common;
use biodivine_lib_bdd::*;
use common::*;
use rand::Rng;

fn s(x: &str) -> String { x.to_string() }

fn parse_lits(t: &str) -> Vec<(BddVariable, bool)> {
    if t == "~" { return vec![]; }
    t.split(',').map(|p| {
        let mut it = p.split(':');
        let x: usize = it.next().unwrap().parse().unwrap();
        let b = it.next().unwrap() == "1";
        (var(x), b)
    }).collect()
}
fn fmt_lits(l: &[(usize, bool)]) -> String {
    if l.is_empty() { return s("~"); }
    l.iter().map(|(x, b)| format!("{}:{}", x, if *b { 1 } else { 0 })).collect::<Vec<_>>().join(",")
}
fn parse_vars(t: &str) -> Vec<BddVariable> {
    if t == "~" { return vec![]; }
    t.split(',').map(|p| var(p.parse().unwrap())).collect()
}
fn parse_flips(t: &str) -> Vec<bool> {
    if t == "~" { return vec![]; }
    t.chars().map(|c| c == '1').collect()
}

/// Executes one case from its textual inputs and writes the observation.
pub fn run(key: &str, a: &[String], out: &mut Out) {
    out.begin(key, a);
    match key {
        "C06.coin" => {
            let flips = parse_flips(&a[0]);
            let mut rng = CoinRng::new(flips.clone());
            let got: Vec<bool> = flips.iter().map(|_| rng.gen_bool(0.5)).collect();
            out.case(key, a, &[fmt_bools(&got), rng.pos.to_string()]);
        }
        "C06.vsel" => {
            let b = Bdd::from_string(&a[0]);
            let (x, v) = (var(a[1].parse().unwrap()), a[2] == "1");
            out.case(key, a, &[fmt_res_bdd(&catch(|| b.var_select(x, v)))]);
        }
        "C06.select" => {
            let b = Bdd::from_string(&a[0]);
            let lits = parse_lits(&a[1]);
            out.case(key, a, &[fmt_res_bdd(&catch(|| b.select(&lits)))]);
        }
        "C06.vres" => {
            let b = Bdd::from_string(&a[0]);
            let (x, v) = (var(a[1].parse().unwrap()), a[2] == "1");
            out.case(key, a, &[fmt_res_bdd(&catch(|| b.var_restrict(x, v)))]);
        }
        "C06.restrict" => {
            let b = Bdd::from_string(&a[0]);
            let lits = parse_lits(&a[1]);
            out.case(key, a, &[fmt_res_bdd(&catch(|| b.restrict(&lits)))]);
        }
        "C06.vpick" => {
            let b = Bdd::from_string(&a[0]);
            let x = var(a[1].parse().unwrap());
            out.case(key, a, &[fmt_res_bdd(&catch(|| b.var_pick(x)))]);
        }
        "C06.vpickr" => {
            let b = Bdd::from_string(&a[0]);
            let x = var(a[1].parse().unwrap());
            let mut rng = CoinRng::new(parse_flips(&a[2]));
            let res = catch(|| b.var_pick_random(x, &mut rng));
            out.case(key, a, &[fmt_res_bdd(&res), rng.pos.to_string()]);
        }
        "C06.pick" => {
            let b = Bdd::from_string(&a[0]);
            let vars = parse_vars(&a[1]);
            out.case(key, a, &[fmt_res_bdd(&catch(|| b.pick(&vars)))]);
        }
        "C06.pickr" => {
            let b = Bdd::from_string(&a[0]);
            let vars = parse_vars(&a[1]);
            let mut rng = CoinRng::new(parse_flips(&a[2]));
            let res = catch(|| b.pick_random(&vars, &mut rng));
            out.case(key, a, &[fmt_res_bdd(&res), rng.pos.to_string()]);
        }
        "C06.vex" => {
            let b = Bdd::from_string(&a[0]);
            let x = var(a[1].parse().unwrap());
            out.case(key, a, &[fmt_res_bdd(&catch(|| b.var_exists(x)))]);
        }
        "C06.vall" => {
            let b = Bdd::from_string(&a[0]);
            let x = var(a[1].parse().unwrap());
            out.case(key, a, &[fmt_res_bdd(&catch(|| b.var_for_all(x)))]);
        }
        _ => panic!("unknown key {}", key),
    }
}

/// all partial assignments over n variables as ascending literal lists (3^n of them)
fn all_partials(n: usize) -> Vec<Vec<(usize, bool)>> {
    let mut res = vec![vec![]];
    for x in 0..n {
        let mut next = vec![];
        for p in &res {
            next.push(p.clone());
            let mut q = p.clone(); q.push((x, false)); next.push(q);
            let mut q = p.clone(); q.push((x, true)); next.push(q);
        }
        res = next;
    }
    res
}
fn shuffle<T>(rng: &mut Rng64, v: &mut Vec<T>) {
    for i in (1..v.len()).rev() { let j = rng.below(i as u64 + 1) as usize; v.swap(i, j); }
}
/// the same partial assignment as the library sees it after `from_values`, presented differently: another
/// order, and overwritten earlier literals on the same variables (the LAST one wins)
fn disguise(rng: &mut Rng64, lits: &[(usize, bool)]) -> Vec<(usize, bool)> {
    let mut v: Vec<(usize, bool)> = lits.to_vec();
    shuffle(rng, &mut v);
    let mut pre: Vec<(usize, bool)> = vec![];
    for (x, b) in lits { if rng.chance(1, 2) { pre.push((*x, if rng.bool() { *b } else { !*b })); } }
    shuffle(rng, &mut pre);
    pre.extend(v);
    pre
}
fn all_subsets(n: usize) -> Vec<Vec<usize>> {
    (0..(1usize << n)).map(|m| (0..n).filter(|k| (m >> k) & 1 == 1).collect()).collect()
}
fn random_flips(rng: &mut Rng64, k: usize) -> Vec<bool> { (0..k).map(|_| rng.bool()).collect() }

/// all orders of a list (k! of them; k <= 4 here)
fn permutations<T: Clone>(v: &[T]) -> Vec<Vec<T>> {
    if v.len() <= 1 { return vec![v.to_vec()]; }
    let mut res = vec![];
    for i in 0..v.len() {
        let mut rest = v.to_vec();
        let x = rest.remove(i);
        for mut p in permutations(&rest) { p.insert(0, x.clone()); res.push(p); }
    }
    res
}

/// everything about one operand over a small universe: every variable, every partial assignment in EVERY order
/// (plus disguised presentations with overwritten literals), every variable subset in EVERY order, every coin list
fn ops_for(b: &str, n: usize, partials: &[Vec<(usize, bool)>], subsets: &[Vec<usize>], rng: &mut Rng64, out: &mut Out) {
    let bs = s(b);
    for x in 0..n {
        for v in ["0", "1"] {
            run("C06.vsel", &[bs.clone(), x.to_string(), s(v)], out);
            run("C06.vres", &[bs.clone(), x.to_string(), s(v)], out);
            run("C06.vpickr", &[bs.clone(), x.to_string(), s(v)], out);
        }
        run("C06.vpick", &[bs.clone(), x.to_string()], out);
        run("C06.vex", &[bs.clone(), x.to_string()], out);
        run("C06.vall", &[bs.clone(), x.to_string()], out);
    }
    for p in partials {
        for q in permutations(p) {
            run("C06.select", &[bs.clone(), fmt_lits(&q)], out);
            run("C06.restrict", &[bs.clone(), fmt_lits(&q)], out);
        }
        if !p.is_empty() && rng.chance(1, 3) {
            let d = disguise(rng, p);
            run("C06.select", &[bs.clone(), fmt_lits(&d)], out);
            let d = disguise(rng, p);
            run("C06.restrict", &[bs.clone(), fmt_lits(&d)], out);
        }
    }
    for vs in subsets {
        let orders = permutations(vs);
        for o in &orders {
            run("C06.pick", &[bs.clone(), fmt_usizes(o)], out);
        }
        for m in 0..(1usize << vs.len()) {
            let o = rng.pick(&orders).clone();
            let fl: Vec<bool> = (0..vs.len()).map(|k| (m >> k) & 1 == 1).collect();
            run("C06.pickr", &[bs.clone(), fmt_usizes(&o), fmt_bools(&fl)], out);
        }
    }
}

/// operands with more than 65 536 nodes (pointers and memo keys beyond 16 bits): dense pseudo-random functions
/// over 20 variables (~107 000 nodes); every operation of the family once or twice on each
fn big_jobs(rng: &mut Rng64, operands: usize) -> Vec<(&'static str, Vec<String>)> {
    let n = 20usize;
    let mut jobs: Vec<(&'static str, Vec<String>)> = vec![];
    for k in 0..operands {
        let tt: Vec<bool> = (0..(1usize << n)).map(|_| rng.bool()).collect();
        let b = fmt_bdd(&bdd_of_tt(n, &tt));
        let x = if k == 0 { 0 } else { rng.below(n as u64) as usize };
        let mut y = rng.below(n as u64) as usize;
        if y == x { y = (x + 7) % n; }
        let z = (x + y + 1 + rng.below(5) as usize) % n;
        let (bx, by, bz) = (rng.bool(), rng.bool(), rng.bool());
        jobs.push(("C06.vsel", vec![b.clone(), x.to_string(), s("1")]));
        jobs.push(("C06.vsel", vec![b.clone(), (n / 2 + k).to_string(), s("0")]));
        jobs.push(("C06.select", vec![b.clone(), fmt_lits(&[(y, by), (x, bx), (z, bz), (y, !by)])]));
        jobs.push(("C06.vres", vec![b.clone(), y.to_string(), s(if by { "1" } else { "0" })]));
        jobs.push(("C06.restrict", vec![b.clone(), fmt_lits(&[(y, by), (x, !bx), (x, bx)])]));
        jobs.push(("C06.vpick", vec![b.clone(), x.to_string()]));
        jobs.push(("C06.vpickr", vec![b.clone(), y.to_string(), s("1")]));
        jobs.push(("C06.pick", vec![b.clone(), fmt_usizes(&[y, x])]));
        jobs.push(("C06.pickr", vec![b.clone(), fmt_usizes(&[x, y, x]), fmt_bools(&[rng.bool(), rng.bool()])]));
    }
    jobs
}

pub fn gen(tier: Tier, rng: &mut Rng64, out: &mut Out) {
    let thorough = tier == Tier::Thorough;
    // the big-operand cases are spread over the stream of small cases so that the runner's shards share them
    let mut bigs = big_jobs(rng, if thorough { 6 } else { 2 });
    bigs.reverse();
    // the coin convention of `CoinRng` is re-validated on every run
    for t in ["0", "1", "01", "10", "0011010111", "1111100000"] { run("C06.coin", &[s(t)], out); }
    // --- exhaustive small universes (both tiers): every function over n <= 3 variables x every partial
    //     assignment in every order x every variable subset in every order x every coin list
    for n in 0..=3usize {
        let count = 1u64 << (1u64 << n);
        let partials = all_partials(n);
        let subsets = all_subsets(n);
        for t in 0..count {
            let b = fmt_bdd(&bdd_of_tt(n, &tt_from_index(n, t)));
            ops_for(&b, n, &partials, &subsets, rng, out);
            if n == 3 && t % (if thorough { 5 } else { 15 }) == 7 {
                if let Some((key, args)) = bigs.pop() { run(key, &args, out); }
            }
        }
    }
    while let Some((key, args)) = bigs.pop() { run(key, &args, out); }
    // --- thorough: a sample of the functions over 4 variables with the same treatment, and the one-variable
    //     restrict / pick on ALL 65 536 functions over 4 variables
    if thorough {
        let partials = all_partials(4);
        let subsets = all_subsets(4);
        for _ in 0..1500 {
            let b = fmt_bdd(&bdd_of_tt(4, &tt_from_index(4, rng.below(65536))));
            ops_for(&b, 4, &partials, &subsets, rng, out);
        }
        for t in 0..65536u64 {
            let b = fmt_bdd(&bdd_of_tt(4, &tt_from_index(4, t)));
            for x in 0..4usize {
                run("C06.vres", &[b.clone(), x.to_string(), s("0")], out);
                run("C06.vres", &[b.clone(), x.to_string(), s("1")], out);
                run("C06.vpick", &[b.clone(), x.to_string()], out);
            }
        }
    }
    // --- repeated variables in the pick list (the slice denotes a set), adjacent and NON-adjacent repeats:
    //     every list of length 2..4 with a repetition; all of them over n <= 2, three fixed ones + a sample over n = 3
    for n in 1..=3usize {
        let count = 1u64 << (1u64 << n);
        let mut lists: Vec<Vec<usize>> = vec![];
        for a in 0..n { for b in 0..n {
            lists.push(vec![a, b]);
            for c in 0..n {
                lists.push(vec![a, b, c]);
                for d in 0..n { lists.push(vec![a, b, c, d]); }
            }
        } }
        lists.retain(|l| { let mut d = l.clone(); d.sort(); d.dedup(); d.len() < l.len() });
        let fixed: Vec<Vec<usize>> = vec![vec![0, 1, 0], vec![2, 0, 2, 1], vec![1, 2, 1, 0], vec![2, 2], vec![1, 0, 0, 1]];
        for t in 0..count {
            let b = fmt_bdd(&bdd_of_tt(n, &tt_from_index(n, t)));
            for l in &lists {
                let always = n < 3 || fixed.contains(l);
                if !always && !thorough && !rng.chance(1, 10) { continue; }
                run("C06.pick", &[b.clone(), fmt_usizes(l)], out);
                let fl = random_flips(rng, l.len());
                run("C06.pickr", &[b.clone(), fmt_usizes(l), fmt_bools(&fl)], out);
            }
        }
    }
    // --- random larger operands (shared sub-diagrams, skipped levels), some of them valid but non-canonical
    let rounds = if thorough { 30000 } else { 700 };
    for _ in 0..rounds {
        let n = 4 + rng.below(3) as usize;
        let mut bdd = random_bdd(rng, n);
        if rng.chance(1, 6) { bdd = noncanon_variant(rng, &bdd); }
        let b = fmt_bdd(&bdd);
        // a handful of random partial assignments and subsets
        for _ in 0..3 {
            let mut p: Vec<(usize, bool)> = vec![];
            for x in 0..n { if rng.chance(2, 5) { p.push((x, rng.bool())); } }
            let d = disguise(rng, &p);
            run("C06.select", &[b.clone(), fmt_lits(&d)], out);
            let d = disguise(rng, &p);
            run("C06.restrict", &[b.clone(), fmt_lits(&d)], out);
            let mut vs: Vec<usize> = (0..n).filter(|_| rng.chance(2, 5)).collect();
            if !vs.is_empty() && rng.chance(1, 4) { let extra = *rng.pick(&vs); vs.push(extra); }
            shuffle(rng, &mut vs);
            run("C06.pick", &[b.clone(), fmt_usizes(&vs)], out);
            let fl = random_flips(rng, vs.len());
            run("C06.pickr", &[b.clone(), fmt_usizes(&vs), fmt_bools(&fl)], out);
        }
        let x = rng.below(n as u64) as usize;
        let v = if rng.bool() { "1" } else { "0" };
        run("C06.vsel", &[b.clone(), x.to_string(), s(v)], out);
        run("C06.vres", &[b.clone(), x.to_string(), s(v)], out);
        run("C06.vpick", &[b.clone(), x.to_string()], out);
        run("C06.vpickr", &[b.clone(), x.to_string(), s(v)], out);
        run("C06.vex", &[b.clone(), x.to_string()], out);
        run("C06.vall", &[b.clone(), x.to_string()], out);
    }
    // --- too few coins: `CoinRng` answers `false` when its list is exhausted (the model's `drawCoin` too)
    for _ in 0..(if thorough { 400 } else { 40 }) {
        let n = 2 + rng.below(3) as usize;
        let b = fmt_bdd(&random_bdd(rng, n));
        let vs: Vec<usize> = (0..n).collect();
        let k = rng.below(n as u64) as usize;
        let fl = random_flips(rng, k);
        run("C06.pickr", &[b.clone(), fmt_usizes(&vs), fmt_bools(&fl)], out);
    }
    // --- separate stream: variables outside the variable set. The only claims: the quantifier / pick family
    //     refuses by panic (`check_flip_bounds`), `restrict` ignores them. (`var_select`, `select`, `var_pick`
    //     with an index ABOVE `num_vars` do not terminate and are kept out of every stream; `var_pick` with
    //     index = `num_vars` terminates in its inner `var_select` and then panics.)
    for _ in 0..(if thorough { 600 } else { 60 }) {
        let n = rng.below(5) as usize;
        let b = fmt_bdd(&random_bdd(rng, n));
        let big = n + rng.below(4) as usize;
        run("C06.vex", &[b.clone(), big.to_string()], out);
        run("C06.vall", &[b.clone(), big.to_string()], out);
        run("C06.vpick", &[b.clone(), n.to_string()], out);
        run("C06.vpickr", &[b.clone(), n.to_string(), s("1")], out);
        let mut vs: Vec<usize> = (0..n).filter(|_| rng.bool()).collect();
        vs.push(big);
        shuffle(rng, &mut vs);
        run("C06.pick", &[b.clone(), fmt_usizes(&vs)], out);
        let fl = random_flips(rng, vs.len());
        run("C06.pickr", &[b.clone(), fmt_usizes(&vs), fmt_bools(&fl)], out);
        let mut p: Vec<(usize, bool)> = vec![];
        for x in 0..n { if rng.chance(1, 3) { p.push((x, rng.bool())); } }
        p.push((big, rng.bool()));
        p.push((big + 40, rng.bool()));
        shuffle(rng, &mut p);
        run("C06.restrict", &[b.clone(), fmt_lits(&p)], out);
        run("C06.vres", &[b.clone(), big.to_string(), s("1")], out);
    }
}

fn main() { harness_main(gen, run) }
