//! C20: the `.dot` export lists exactly the nodes and edges of the diagram.
//!
//! `C20.dot <bdd> <names> <pruned> => x<hex of the text> <=|x<hex>>` — the first observation is
//! `to_dot_string`, the second `write_as_dot_string` into a `Vec<u8>` (`=` when it is the same text).
//! `C20.write <bdd> <names> <pruned> <script> => x<hex of to_dot_string> <ok|err|panic> <=|x<hex of the bytes that reached the sink>>`
//! exports through `write_as_dot_string` into a scripted sink (`serial_io::SWriter`: every `write` call consumes one
//! event: `gK` accept at most K bytes, `i` Interrupted, `e` hard error; a final `*K` = every further call accepts at
//! most K bytes; an exhausted script accepts everything).
//! Names travel hex-encoded (`h<utf8 bytes>`, lists joined by `,`, the empty list is `~`).
#[path = "../common.rs"]
mod common;
#[path = "../serial_io.rs"]
mod serial_io;
use biodivine_lib_bdd::*;
use common::*;
use serial_io::{Ev, SWriter};

fn s(x: &str) -> String { x.to_string() }

fn hex(bytes: &[u8]) -> String {
    let mut r = String::with_capacity(2 * bytes.len());
    for b in bytes { r.push_str(&format!("{:02x}", b)); }
    r
}
fn enc_name(n: &str) -> String { format!("h{}", hex(n.as_bytes())) }
fn dec_name(h: &str) -> String {
    let h = &h[1..];
    let bytes: Vec<u8> = (0..h.len() / 2).map(|i| u8::from_str_radix(&h[2 * i..2 * i + 2], 16).unwrap()).collect();
    String::from_utf8(bytes).unwrap()
}
fn enc_names(ns: &[String]) -> String {
    if ns.is_empty() { s("~") } else { ns.iter().map(|n| enc_name(n)).collect::<Vec<_>>().join(",") }
}
fn dec_names(f: &str) -> Vec<String> {
    if f == "~" { vec![] } else { f.split(',').map(dec_name).collect() }
}

/// `i.g3.*7`: events separated by `.`, an optional final `*K` repeated as often as `len` bytes can need
fn parse_sink_script(s: &str, len: usize) -> Vec<Ev> {
    let mut evs = vec![];
    if s == "~" { return evs; }
    for tok in s.split('.') {
        if let Some(k) = tok.strip_prefix('*') {
            let k: usize = k.parse().unwrap();
            for _ in 0..(len + 2) { evs.push(Ev::Give(k)); }
        } else if tok == "i" { evs.push(Ev::Intr) }
        else if tok == "e" { evs.push(Ev::Fail) }
        else { evs.push(Ev::Give(tok[1..].parse().unwrap())) }
    }
    evs
}

pub fn run(key: &str, a: &[String], out: &mut Out) {
    out.begin(key, a);
    match key {
        "C20.write" => {
            let bdd = Bdd::from_string(&a[0]);
            let names = dec_names(&a[1]);
            let pruned = a[2] == "1";
            let refs: Vec<&str> = names.iter().map(|x| x.as_str()).collect();
            let vs = match catch(|| BddVariableSet::new(&refs)) {
                Some(vs) => vs,
                None => { out.case(key, a, &[s("badset")]); return; }
            };
            let text = match catch(|| bdd.to_dot_string(&vs, pruned)) {
                Some(t) => t,
                None => { out.case(key, a, &[s("panic"), s("panic"), s("~")]); return; }
            };
            let mut sink = SWriter::new(&parse_sink_script(&a[3], text.len()));
            let res = catch(|| bdd.write_as_dot_string(&mut sink, &vs, pruned));
            let status = match &res { Some(Ok(())) => "ok", Some(Err(_)) => "err", None => "panic" };
            let got = if sink.out == text.as_bytes() { s("=") } else { format!("x{}", hex(&sink.out)) };
            out.case(key, a, &[format!("x{}", hex(text.as_bytes())), s(status), got]);
        }
        "C20.dot" => {
            let bdd = Bdd::from_string(&a[0]);
            let names = dec_names(&a[1]);
            let pruned = a[2] == "1";
            let refs: Vec<&str> = names.iter().map(|x| x.as_str()).collect();
            let vs = match catch(|| BddVariableSet::new(&refs)) {
                Some(vs) => vs,
                None => { out.case(key, a, &[s("badset")]); return; }
            };
            let text = catch(|| bdd.to_dot_string(&vs, pruned));
            let written = catch(|| { let mut buf: Vec<u8> = Vec::new(); bdd.write_as_dot_string(&mut buf, &vs, pruned).map(|_| buf) });
            let f1 = match &text { Some(t) => format!("x{}", hex(t.as_bytes())), None => s("panic") };
            let f2 = match (&text, &written) {
                (Some(t), Some(Ok(w))) if t.as_bytes() == &w[..] => s("="),
                (_, Some(Ok(w))) => format!("x{}", hex(w)),
                (_, Some(Err(_))) => s("err"),
                (_, None) => s("panic"),
            };
            out.case(key, a, &[f1, f2]);
        }
        _ => panic!("unknown key {}", key),
    }
}

fn name_sets(n: usize) -> Vec<Vec<String>> {
    let pools: [&[&str]; 7] = [
        // legal names (only `! & | ^ = < > ( ) ? :` are forbidden): TAB, no-break space, a combining mark, a zero-width
        // joiner sequence, control characters, CJK, BOM, leading/trailing blanks, the Unicode line separator
        &["a\tb", "\u{a0}x", "e\u{301}", "\u{1f469}\u{200d}\u{1f469}", "\u{1}", "x\u{7f}", "\u{65e5}\u{672c}", "\u{feff}z", " lead", "trail "],
        &["\u{2028}", "\u{200d}", "\u{301}", "\t", "\u{a0}", "a\u{200b}b", "\u{202e}rtl", "\u{1f600}", "\u{c}", "ｆｕｌｌ"],
        &["a", "b", "c", "d", "e", "f", "g", "h", "i", "j"],
        &["x_0", "x_1", "x_2", "x_3", "x_4", "x_5", "x_6", "x_7", "x_8", "x_9"],
        &["v 1", "é", "a.b-c", "", "0", "1", "--", "[label]", "init__", ";"],
        &["1", "0", "2", "digraph G {", "}", "style filled", "x,y", "π/2", "A", "a"],
        &["long_variable_name_number_zero", "B", "cc", "D4", "_", "e e", "f;", "#", "%d", "{}"],
    ];
    pools.iter().map(|p| p.iter().take(n).map(|x| x.to_string()).collect()).collect()
}

fn both(bdd: &str, names: &[String], out: &mut Out) {
    for p in ["0", "1"] { run("C20.dot", &[s(bdd), enc_names(names), s(p)], out); }
}

pub fn gen(tier: Tier, rng: &mut Rng64, out: &mut Out) {
    let thorough = tier == Tier::Thorough;
    // --- all functions over n <= 3 variables (constants, literals, both-terminal children, shared nodes),
    //     pruned and not, several name sets
    for n in 0..=3usize {
        let count = 1u64 << (1u64 << n);
        let sets = name_sets(n);
        for t in 0..count {
            let b = fmt_bdd(&bdd_of_tt(n, &tt_from_index(n, t)));
            for (i, names) in sets.iter().enumerate() {
                if thorough || n < 3 || i < 3 || rng.chance(1, 3) { both(&b, names, out); }
            }
        }
    }
    // n = 4: all 65 536 functions in the thorough tier, a sample otherwise
    {
        let sets = name_sets(4);
        let rounds: u64 = if thorough { 65536 } else { 1500 };
        for i in 0..rounds {
            let t = if thorough { i } else { rng.below(65536) };
            let b = fmt_bdd(&bdd_of_tt(4, &tt_from_index(4, t)));
            let names = rng.pick(&sets).clone();
            both(&b, &names, out);
        }
    }
    // --- random larger diagrams, also valid non-canonical ones (duplicated nodes, unreachable nodes, redundant tests,
    //     non-post-order numbering): the export walks the node array, not the graph
    for _ in 0..(if thorough { 60000 } else { 1200 }) {
        let n = 4 + rng.below(5) as usize;
        let mut b = random_bdd(rng, n);
        if rng.chance(1, 3) { b = noncanon_variant(rng, &b); }
        let sets = name_sets(n);
        let names: Vec<String> = rng.pick(&sets[..]).clone();
        both(&fmt_bdd(&b), &names, out);
    }
    // --- few-node diagrams over many variables (level gaps, multi-digit variable indices and node ids)
    for _ in 0..(if thorough { 2000 } else { 150 }) {
        let n = 10 + rng.below(300) as usize;
        let names: Vec<String> = (0..n).map(|i| format!("n{}", i)).collect();
        let mut lits: Vec<(usize, bool)> = vec![];
        for i in 0..n { if rng.chance(1, 8) { lits.push((i, rng.bool())); } }
        // chain (conjunctive clause) laid out by hand: last literal first
        let mut nodes = vec![(n, 0, 0), (n, 1, 1)];
        for (i, v) in lits.iter().rev() {
            let root = nodes.len() - 1;
            nodes.push(if *v { (*i, 0, root) } else { (*i, root, 0) });
        }
        both(&fmt_triples(&nodes), &names, out);
    }
    // --- export through `write_as_dot_string` into a scripted sink: chunk sizes 1, 7, 4096, whole; interruptions;
    //     hard errors and zero-length writes placed before the text can be exhausted (so that they are reached
    //     whatever pieces `write_fmt` hands to `write_all`)
    {
        let ok_scripts = ["~", "*1", "*7", "*4096", "i.*3", "g5.i.i.g1.*2", "i.i.i"];
        let bad_scripts = ["e", "g3.e", "g1.g1.g1.e", "i.e", "g0", "g4.i.g0", "*1.e"];
        let small: u64 = if thorough { 256 } else { 24 };
        for i in 0..small {
            let t = if thorough { i } else { rng.below(256) };
            let b = fmt_bdd(&bdd_of_tt(3, &tt_from_index(3, t)));
            let sets = name_sets(3);
            let names = rng.pick(&sets[..]).clone();
            for p in ["0", "1"] {
                for sc in ok_scripts.iter().chain(bad_scripts.iter()) {
                    if *sc == "*1.e" { continue; }
                    run("C20.write", &[b.clone(), enc_names(&names), s(p), s(sc)], out);
                }
            }
        }
        // one large diagram: a chain over 900 variables, more than 30 KiB of text
        let n = 900usize;
        let names: Vec<String> = (0..n).map(|i| format!("n{}", i)).collect();
        let mut nodes = vec![(n, 0, 0), (n, 1, 1)];
        for i in (0..n).rev() { let root = nodes.len() - 1; nodes.push(if i % 3 == 0 { (i, root, 0) } else { (i, 0, root) }); }
        let big = fmt_triples(&nodes);
        for sc in ["~", "*1", "*7", "*4096", "i.g100.i.*1000", "g30000.e", "g4096.g4096.g0", "*9.i"] {
            run("C20.write", &[big.clone(), enc_names(&names), s("0"), s(sc)], out);
        }
        run("C20.write", &[big.clone(), enc_names(&names), s("1"), s("*4096")], out);
    }
    // --- malformed stream: labels that need escaping (the export does not escape), name count mismatch,
    //     a decision node whose variable has no name
    let weird: [&[&str]; 5] = [&["a\"b", "c"], &["a\\", "b"], &["li\nne", "b"], &["\"", "\\\""], &["c\rr", "b"]];
    for names in weird {
        let names: Vec<String> = names.iter().map(|x| x.to_string()).collect();
        for t in 0..16u64 { both(&fmt_bdd(&bdd_of_tt(2, &tt_from_index(2, t))), &names, out); }
    }
    for n in 0..=3usize {
        for m in 0..=4usize {
            if m == n { continue; }
            let names: Vec<String> = (0..m).map(|i| format!("v{}", i)).collect();
            let t = rng.below(1u64 << (1u64 << n));
            both(&fmt_bdd(&bdd_of_tt(n, &tt_from_index(n, t))), &names, out);
        }
    }
    for b in ["|2,0,0|2,1,1|5,0,1|", "|2,0,0|2,1,1|2,0,1|", "|2,0,0|2,1,1|1,0,1|0,2,7|", "|2,0,0|2,1,1|1,0,1|0,2,2|0,3,1|"] {
        both(b, &[s("a"), s("b")], out);
    }
}

fn main() { harness_main(gen, run) }
