//! C20: the `.dot` export lists exactly the nodes and edges of the diagram.
//!
//! `C20.dot <bdd> <names> <pruned> => x<hex of the text> <=|x<hex>>` — the first observation is
//! `to_dot_string`, the second `write_as_dot_string` into a `Vec<u8>` (`=` when it is the same text).
//! `C20.write <bdd> <names> <pruned> <script> => x<hex of to_dot_string> <ok|err|panic> <=|x<hex of the bytes that reached the sink>>`
//! exports through `write_as_dot_string` into a scripted sink (`serial_io::SWriter`: every `write` call consumes one
//! event: `gK` accept at most K bytes, `i` Interrupted, `e` hard error; a final `*K` = every further call accepts at
//! most K bytes; `gK^N` = N calls accepting at most K bytes; an exhausted script accepts everything). When `to_dot_string`
//! panics the first field is `panic` and the export into the sink is still performed.
//! `C20.writeinv …` same line format as `C20.write`, for INVALID diagrams (a decision node whose variable has no name;
//! constructible through `Bdd::from_string`, which does not validate): the sink's error may come before the panic.
//! `C20.pieces <bdd> <names> <pruned> => <ok|err|panic> <buffer lengths of the successive write calls>` (accept-all sink).
//! `C20.budget <bdd> <names> <pruned> <budget>` same line format as `C20.write`; the sink accepts `budget` bytes in total.
//! `C20.big <n> <total> <seed> <pruned> => …` one hand-built valid diagram with `total` nodes; the text is digested and
//! read back by the harness's own line reader (see `read_back`), the observations are counts.
//! Names travel hex-encoded (`h<utf8 bytes>`, lists joined by `,`, the empty list is `~`).
#[path = "../common.rs"]
mod common;
#[path = "../serial_io.rs"]
mod serial_io;
use biodivine_lib_bdd::*;
use common::*;
use serial_io::{Ev, SWriter};

fn s(x: &str) -> String { x.to_string() }

fn hex(bytes: &[u8]) -> String {
    let mut r = String::with_capacity(2 * bytes.len());
    for b in bytes { r.push_str(&format!("{:02x}", b)); }
    r
}
fn enc_name(n: &str) -> String { format!("h{}", hex(n.as_bytes())) }
fn dec_name(h: &str) -> String {
    let h = &h[1..];
    let bytes: Vec<u8> = (0..h.len() / 2).map(|i| u8::from_str_radix(&h[2 * i..2 * i + 2], 16).unwrap()).collect();
    String::from_utf8(bytes).unwrap()
}
fn enc_names(ns: &[String]) -> String {
    if ns.is_empty() { s("~") } else { ns.iter().map(|n| enc_name(n)).collect::<Vec<_>>().join(",") }
}
fn dec_names(f: &str) -> Vec<String> {
    if f == "~" { vec![] } else { f.split(',').map(dec_name).collect() }
}

/// a valid (level-ordered, not reduced) diagram with `total` nodes over `n` variables, built by hand from a seed: the
/// variable decreases with the node index, children are earlier nodes of deeper levels or terminals
fn big_triples(n: usize, total: usize, seed: u64) -> Vec<(usize, usize, usize)> {
    let mut rng = Rng64(seed ^ 0xB16D1A6);
    let mut t = vec![(n, 0, 0), (n, 1, 1)];
    let var_of = |i: usize| (n - 1) - ((i - 2) * n / (total - 2)).min(n - 1);
    let mut layer_start = 2usize;
    for i in 2..total {
        let v = var_of(i);
        if i > 2 && v != var_of(i - 1) { layer_start = i; }
        let mut pick = |rng: &mut Rng64| if layer_start > 2 && rng.chance(7, 8) { 2 + rng.below((layer_start - 2) as u64) as usize } else { rng.below(2) as usize };
        let (lo, hi) = (pick(&mut rng), pick(&mut rng));
        t.push((v, lo, hi));
    }
    t
}

/// the harness's own reader of `.dot` text for the big-diagram stream (line based, independent of the library):
/// returns the observations listed at `C20.big`
fn read_back(text: &str, t: &[(usize, usize, usize)], names: &[String], pruned: bool, seed: u64) -> Vec<String> {
    use std::collections::{HashMap, HashSet};
    let size = t.len();
    let (mut unparsed, mut vertices, mut label_bad, mut edges, mut dangling, mut wrong) = (0usize, 0usize, 0usize, 0usize, 0usize, 0usize);
    let mut ids: HashMap<usize, String> = HashMap::new();
    let mut edge_keys: HashSet<(usize, bool)> = HashSet::new();
    let mut edge_list: Vec<(usize, usize, bool)> = vec![];
    let mut entries: Vec<usize> = vec![];
    let mut terminals: Vec<usize> = vec![];
    let (mut headers, mut footers, mut initnodes) = (0, 0, 0);
    let lines: Vec<&str> = text.split('\n').collect();
    let body = if lines.last() == Some(&"") { &lines[..lines.len() - 1] } else { unparsed += 1; &lines[..] };
    for l in body {
        if *l == "digraph G {" { headers += 1; continue; }
        if *l == "}" { footers += 1; continue; }
        if *l == "init__ [label=\"\", style=invis, height=0, width=0];" { initnodes += 1; continue; }
        if let Some(r) = l.strip_prefix("init__ -> ") {
            match r.strip_suffix(';').and_then(|x| x.parse::<usize>().ok()) { Some(p) => entries.push(p), None => unparsed += 1 }
            continue;
        }
        let d = l.bytes().take_while(|b| b.is_ascii_digit()).count();
        if d == 0 { unparsed += 1; continue; }
        let id: usize = match l[..d].parse() { Ok(x) => x, Err(_) => { unparsed += 1; continue; } };
        let rest = &l[d..];
        if let Some(r) = rest.strip_prefix("[label=\"") {
            match r.strip_suffix("\"];") {
                Some(label) => {
                    vertices += 1;
                    let expect = if id >= 2 && id < size && t[id].0 < names.len() { Some(&names[t[id].0]) } else { None };
                    if expect.map(|e| e.as_str()) != Some(label) { label_bad += 1; }
                    ids.insert(id, label.to_string());
                }
                None => unparsed += 1,
            }
        } else if let Some(r) = rest.strip_prefix(" -> ") {
            let d2 = r.bytes().take_while(|b| b.is_ascii_digit()).count();
            let style = &r[d2..];
            let filled = style == " [style=filled];";
            if d2 == 0 || !(filled || style == " [style=dotted];") { unparsed += 1; continue; }
            let q: usize = r[..d2].parse().unwrap_or(usize::MAX);
            edges += 1;
            edge_keys.insert((id, filled));
            edge_list.push((id, q, filled));
        } else if rest == format!(" [shape=box, label=\"{}\", style=filled, shape=box, height=0.3, width=0.3];", id) && id < 2 {
            terminals.push(id);
        } else { unparsed += 1; }
    }
    let mut out_edges: HashMap<(usize, bool), usize> = HashMap::new();
    for (p, q, filled) in &edge_list {
        let declared = ids.contains_key(q) || terminals.contains(q);
        if !declared || !ids.contains_key(p) { dangling += 1; }
        let ok = *p >= 2 && *p < size && (if *filled { t[*p].2 } else { t[*p].1 }) == *q;
        if !ok { wrong += 1; }
        out_edges.insert((*p, *filled), *q);
    }
    // sampled valuations: the graph read back (missing edge / undeclared vertex = 0) against the harness's own walk
    let index_of: HashMap<&str, usize> = names.iter().enumerate().map(|(i, s)| (s.as_str(), i)).collect();
    let mut rng = Rng64(seed ^ 0xE7A1);
    let mut eval_bad = 0usize;
    for _ in 0..64 {
        let val: Vec<bool> = (0..names.len()).map(|_| rng.bool()).collect();
        let mut p = size - 1;
        while p >= 2 { let (v, lo, hi) = t[p]; p = if val[v] { hi } else { lo }; }
        let expect = p == 1;
        let mut cur = *entries.first().unwrap_or(&0);
        let mut steps = 0;
        let got = loop {
            if terminals.contains(&cur) { break cur == 1; }
            steps += 1;
            if steps > names.len() + 2 { break false; }
            match ids.get(&cur) {
                None => break false,
                Some(label) => {
                    let b = index_of.get(label.as_str()).map(|i| val[*i]).unwrap_or(false);
                    match out_edges.get(&(cur, b)) { Some(q) => cur = *q, None => break false }
                }
            }
        };
        if got != expect { eval_bad += 1; }
    }
    let _ = pruned;
    terminals.sort();
    vec![
        format!("{}/{}/{}", headers, footers, initnodes), unparsed.to_string(), vertices.to_string(), ids.len().to_string(),
        label_bad.to_string(), edges.to_string(), edge_keys.len().to_string(), dangling.to_string(), wrong.to_string(),
        fmt_usizes(&entries), fmt_usizes(&terminals), eval_bad.to_string(),
    ]
}

/// a sink with a byte budget: short write where the budget ends, afterwards a hard error on every call
struct BudgetSink { out: Vec<u8>, budget: usize }
impl std::io::Write for BudgetSink {
    fn write(&mut self, buf: &[u8]) -> std::io::Result<usize> {
        let room = self.budget - self.out.len();
        if room == 0 && !buf.is_empty() { return Err(std::io::Error::new(std::io::ErrorKind::Other, "budget exhausted")); }
        let n = room.min(buf.len());
        self.out.extend_from_slice(&buf[..n]);
        Ok(n)
    }
    fn flush(&mut self) -> std::io::Result<()> { Ok(()) }
}

/// a name of exactly `len` bytes: `kind` 0 = ASCII, 1 = two-byte characters, 2 = four-byte characters (the ASCII
/// padding that makes up the length comes FIRST, so the multi-byte characters straddle every offset as `len` varies)
fn sized_name(len: usize, kind: usize) -> String {
    let (ch, w) = match kind { 0 => ('n', 1), 1 => ('\u{e9}', 2), _ => ('\u{1f600}', 4) };
    let mut s = String::with_capacity(len);
    for i in 0..(len % w) { s.push((b'a' + (i % 26) as u8) as char); }
    for i in 0..(len / w) { if w == 1 { s.push((b'a' + ((i * 7 + len) % 26) as u8) as char) } else { s.push(ch) } }
    debug_assert!(s.len() == len);
    s
}

/// conjunction of `n` positive literals as a hand-built chain: node ids 2 … n+1, the root (variable 0) is n+1
fn chain(n: usize) -> String {
    let mut nodes = vec![(n, 0, 0), (n, 1, 1)];
    for i in (0..n).rev() { let root = nodes.len() - 1; nodes.push((i, 0, root)); }
    fmt_triples(&nodes)
}

/// a sink that accepts everything and records the length of every buffer it is offered
struct Recorder { calls: Vec<usize> }
impl std::io::Write for Recorder {
    fn write(&mut self, buf: &[u8]) -> std::io::Result<usize> { self.calls.push(buf.len()); Ok(buf.len()) }
    fn flush(&mut self) -> std::io::Result<()> { Ok(()) }
}

/// `i.g3.*7`: events separated by `.`, an optional final `*K` repeated as often as `len` bytes can need
fn parse_sink_script(s: &str, len: usize) -> Vec<Ev> {
    let mut evs = vec![];
    if s == "~" { return evs; }
    for tok in s.split('.') {
        if let Some(k) = tok.strip_prefix('*') {
            let k: usize = k.parse().unwrap();
            for _ in 0..(len + 2) { evs.push(Ev::Give(k)); }
        } else if tok == "i" { evs.push(Ev::Intr) }
        else if tok == "e" { evs.push(Ev::Fail) }
        else if let Some((k, n)) = tok[1..].split_once('^') {
            // `gK^N`: N calls that accept at most K bytes each
            let (k, n): (usize, usize) = (k.parse().unwrap(), n.parse().unwrap());
            for _ in 0..n { evs.push(Ev::Give(k)); }
        }
        else { evs.push(Ev::Give(tok[1..].parse().unwrap())) }
    }
    evs
}

pub fn run(key: &str, a: &[String], out: &mut Out) {
    out.begin(key, a);
    match key {
        "C20.write" | "C20.writeinv" => {
            let bdd = Bdd::from_string(&a[0]);
            let names = dec_names(&a[1]);
            let pruned = a[2] == "1";
            let refs: Vec<&str> = names.iter().map(|x| x.as_str()).collect();
            let vs = match catch(|| BddVariableSet::new(&refs)) {
                Some(vs) => vs,
                None => { out.case(key, a, &[s("badset")]); return; }
            };
            // `to_dot_string` may panic (wrong number of names, a decision node whose variable has no name): the export
            // into the sink is still performed — the sink's error may come first
            let text = catch(|| bdd.to_dot_string(&vs, pruned));
            // `C20.write`: diagrams that `to_dot_string` exports; `C20.writeinv`: the sink export is performed whatever
            // `to_dot_string` does
            if key == "C20.write" && text.is_none() { out.case(key, a, &[s("panic"), s("panic"), s("~")]); return; }
            let len = text.as_ref().map(|t| t.len()).unwrap_or(64 * bdd.size() + 256);
            let mut sink = SWriter::new(&parse_sink_script(&a[3], len));
            let res = catch(|| bdd.write_as_dot_string(&mut sink, &vs, pruned));
            let status = match &res { Some(Ok(())) => "ok", Some(Err(_)) => "err", None => "panic" };
            let got = match &text {
                Some(t) if sink.out == t.as_bytes() => s("="),
                _ => format!("x{}", hex(&sink.out)),
            };
            let f1 = match &text { Some(t) => format!("x{}", hex(t.as_bytes())), None => s("panic") };
            out.case(key, a, &[f1, s(status), got]);
        }
        "C20.budget" => {
            // bdd names pruned budget => x<text> <ok|err|panic> <=|x<sink bytes>>: a sink that accepts `budget` bytes in total
            // (a short write where the budget ends) and then fails every `write` with a hard error
            let bdd = Bdd::from_string(&a[0]);
            let names = dec_names(&a[1]);
            let pruned = a[2] == "1";
            let budget: usize = a[3].parse().unwrap();
            let refs: Vec<&str> = names.iter().map(|x| x.as_str()).collect();
            let vs = match catch(|| BddVariableSet::new(&refs)) {
                Some(vs) => vs,
                None => { out.case(key, a, &[s("badset")]); return; }
            };
            let text = catch(|| bdd.to_dot_string(&vs, pruned));
            let mut sink = BudgetSink { out: vec![], budget };
            let res = catch(|| bdd.write_as_dot_string(&mut sink, &vs, pruned));
            let status = match &res { Some(Ok(())) => "ok", Some(Err(_)) => "err", None => "panic" };
            let got = match &text {
                Some(t) if sink.out == t.as_bytes() => s("="),
                _ => format!("x{}", hex(&sink.out)),
            };
            let f1 = match &text { Some(t) => format!("x{}", hex(t.as_bytes())), None => s("panic") };
            out.case(key, a, &[f1, s(status), got]);
        }
        "C20.big" => {
            // n total seed pruned => <node array> <fnv64 of the text> <bytes> <header/footer/initnode counts> <unparsed lines>
            //   <vertex statements> <distinct vertex ids> <vertices with a wrong label> <edge statements>
            //   <distinct (source, style)> <edges from/to undeclared vertices> <edges that are not a link of the diagram>
            //   <entry edges> <terminal ids> <sampled valuations (of 64) on which the graph read back differs from the diagram>
            let n: usize = a[0].parse().unwrap();
            let total: usize = a[1].parse().unwrap();
            let seed: u64 = a[2].parse().unwrap();
            let pruned = a[3] == "1";
            let t = big_triples(n, total, seed);
            let bdd = bdd_from_triples(&t);
            let names: Vec<String> = (0..n).map(|i| format!("n{}", i)).collect();
            let refs: Vec<&str> = names.iter().map(|x| x.as_str()).collect();
            let vs = BddVariableSet::new(&refs);
            match catch(|| bdd.to_dot_string(&vs, pruned)) {
                None => out.case(key, a, &[fmt_bdd(&bdd), s("panic")]),
                Some(text) => {
                    let mut o = vec![fmt_bdd(&bdd), format!("{:016x}", serial_io::fnv(text.as_bytes())), text.len().to_string()];
                    o.append(&mut read_back(&text, &t, &names, pruned, seed));
                    out.case(key, a, &o);
                }
            }
        }
        "C20.pieces" => {
            // bdd names pruned => the buffer lengths of the successive `write` calls into a sink that accepts everything
            // (how `write_fmt` cuts the text into `write_all` pieces) | panic
            let bdd = Bdd::from_string(&a[0]);
            let names = dec_names(&a[1]);
            let pruned = a[2] == "1";
            let refs: Vec<&str> = names.iter().map(|x| x.as_str()).collect();
            let vs = match catch(|| BddVariableSet::new(&refs)) {
                Some(vs) => vs,
                None => { out.case(key, a, &[s("badset")]); return; }
            };
            let mut rec = Recorder { calls: vec![] };
            let res = catch(|| bdd.write_as_dot_string(&mut rec, &vs, pruned));
            let status = match &res { Some(Ok(())) => "ok", Some(Err(_)) => "err", None => "panic" };
            out.case(key, a, &[s(status), fmt_usizes(&rec.calls)]);
        }
        "C20.dot" => {
            let bdd = Bdd::from_string(&a[0]);
            let names = dec_names(&a[1]);
            let pruned = a[2] == "1";
            let refs: Vec<&str> = names.iter().map(|x| x.as_str()).collect();
            let vs = match catch(|| BddVariableSet::new(&refs)) {
                Some(vs) => vs,
                None => { out.case(key, a, &[s("badset")]); return; }
            };
            let text = catch(|| bdd.to_dot_string(&vs, pruned));
            let written = catch(|| { let mut buf: Vec<u8> = Vec::new(); bdd.write_as_dot_string(&mut buf, &vs, pruned).map(|_| buf) });
            let f1 = match &text { Some(t) => format!("x{}", hex(t.as_bytes())), None => s("panic") };
            let f2 = match (&text, &written) {
                (Some(t), Some(Ok(w))) if t.as_bytes() == &w[..] => s("="),
                (_, Some(Ok(w))) => format!("x{}", hex(w)),
                (_, Some(Err(_))) => s("err"),
                (_, None) => s("panic"),
            };
            out.case(key, a, &[f1, f2]);
        }
        _ => panic!("unknown key {}", key),
    }
}

fn name_sets(n: usize) -> Vec<Vec<String>> {
    let pools: [&[&str]; 7] = [
        // legal names (only `! & | ^ = < > ( ) ? :` are forbidden): TAB, no-break space, a combining mark, a zero-width
        // joiner sequence, control characters, CJK, BOM, leading/trailing blanks, the Unicode line separator
        &["a\tb", "\u{a0}x", "e\u{301}", "\u{1f469}\u{200d}\u{1f469}", "\u{1}", "x\u{7f}", "\u{65e5}\u{672c}", "\u{feff}z", " lead", "trail "],
        &["\u{2028}", "\u{200d}", "\u{301}", "\t", "\u{a0}", "a\u{200b}b", "\u{202e}rtl", "\u{1f600}", "\u{c}", "ｆｕｌｌ"],
        &["a", "b", "c", "d", "e", "f", "g", "h", "i", "j"],
        &["x_0", "x_1", "x_2", "x_3", "x_4", "x_5", "x_6", "x_7", "x_8", "x_9"],
        &["v 1", "é", "a.b-c", "", "0", "1", "--", "[label]", "init__", ";"],
        &["1", "0", "2", "digraph G {", "}", "style filled", "x,y", "π/2", "A", "a"],
        &["long_variable_name_number_zero", "B", "cc", "D4", "_", "e e", "f;", "#", "%d", "{}"],
    ];
    pools.iter().map(|p| p.iter().take(n).map(|x| x.to_string()).collect()).collect()
}

fn both(bdd: &str, names: &[String], out: &mut Out) {
    for p in ["0", "1"] { run("C20.dot", &[s(bdd), enc_names(names), s(p)], out); }
}

pub fn gen(tier: Tier, rng: &mut Rng64, out: &mut Out) {
    let thorough = tier == Tier::Thorough;
    // --- all functions over n <= 3 variables (constants, literals, both-terminal children, shared nodes),
    //     pruned and not, several name sets
    for n in 0..=3usize {
        let count = 1u64 << (1u64 << n);
        let sets = name_sets(n);
        for t in 0..count {
            let b = fmt_bdd(&bdd_of_tt(n, &tt_from_index(n, t)));
            for (i, names) in sets.iter().enumerate() {
                if thorough || n < 3 || i < 3 || rng.chance(1, 3) { both(&b, names, out); }
            }
        }
    }
    // n = 4: all 65 536 functions in the thorough tier, a sample otherwise
    {
        let sets = name_sets(4);
        let rounds: u64 = if thorough { 65536 } else { 1500 };
        for i in 0..rounds {
            let t = if thorough { i } else { rng.below(65536) };
            let b = fmt_bdd(&bdd_of_tt(4, &tt_from_index(4, t)));
            let names = rng.pick(&sets).clone();
            both(&b, &names, out);
        }
    }
    // --- random larger diagrams, also valid non-canonical ones (duplicated nodes, unreachable nodes, redundant tests,
    //     non-post-order numbering): the export walks the node array, not the graph
    for _ in 0..(if thorough { 60000 } else { 1200 }) {
        let n = 4 + rng.below(5) as usize;
        let mut b = random_bdd(rng, n);
        if rng.chance(1, 3) { b = noncanon_variant(rng, &b); }
        let sets = name_sets(n);
        let names: Vec<String> = rng.pick(&sets[..]).clone();
        both(&fmt_bdd(&b), &names, out);
    }
    // --- few-node diagrams over many variables (level gaps, multi-digit variable indices and node ids)
    for _ in 0..(if thorough { 2000 } else { 150 }) {
        let n = 10 + rng.below(300) as usize;
        let names: Vec<String> = (0..n).map(|i| format!("n{}", i)).collect();
        let mut lits: Vec<(usize, bool)> = vec![];
        for i in 0..n { if rng.chance(1, 8) { lits.push((i, rng.bool())); } }
        // chain (conjunctive clause) laid out by hand: last literal first
        let mut nodes = vec![(n, 0, 0), (n, 1, 1)];
        for (i, v) in lits.iter().rev() {
            let root = nodes.len() - 1;
            nodes.push(if *v { (*i, 0, root) } else { (*i, root, 0) });
        }
        both(&fmt_triples(&nodes), &names, out);
    }
    // --- export through `write_as_dot_string` into a scripted sink: chunk sizes 1, 7, 4096, whole; interruptions;
    //     hard errors and zero-length writes placed before the text can be exhausted (so that they are reached
    //     whatever pieces `write_fmt` hands to `write_all`)
    {
        let ok_scripts = ["~", "*1", "*7", "*4096", "i.*3", "g5.i.i.g1.*2", "i.i.i"];
        let bad_scripts = ["e", "g3.e", "g1.g1.g1.e", "i.e", "g0", "g4.i.g0", "*1.e"];
        let small: u64 = if thorough { 256 } else { 24 };
        for i in 0..small {
            let t = if thorough { i } else { rng.below(256) };
            let b = fmt_bdd(&bdd_of_tt(3, &tt_from_index(3, t)));
            let sets = name_sets(3);
            let names = rng.pick(&sets[..]).clone();
            for p in ["0", "1"] {
                for sc in ok_scripts.iter().chain(bad_scripts.iter()) {
                    if *sc == "*1.e" { continue; }
                    run("C20.write", &[b.clone(), enc_names(&names), s(p), s(sc)], out);
                }
            }
        }
        // one large diagram: a chain over 900 variables, more than 30 KiB of text
        let n = 900usize;
        let names: Vec<String> = (0..n).map(|i| format!("n{}", i)).collect();
        let mut nodes = vec![(n, 0, 0), (n, 1, 1)];
        for i in (0..n).rev() { let root = nodes.len() - 1; nodes.push(if i % 3 == 0 { (i, root, 0) } else { (i, 0, root) }); }
        let big = fmt_triples(&nodes);
        for sc in ["~", "*1", "*7", "*4096", "i.g100.i.*1000", "g30000.e", "g4096.g4096.g0", "*9.i"] {
            run("C20.write", &[big.clone(), enc_names(&names), s("0"), s(sc)], out);
        }
        run("C20.write", &[big.clone(), enc_names(&names), s("1"), s("*4096")], out);
    }
    // --- NAME LENGTHS: names of 1 … 65 536 bytes (every length in 190 … 260), ASCII and multi-byte, on a literal and on
    //     small diagrams (one-, two- and three-digit node ids), both pruning modes, `to_dot_string` and
    //     `write_as_dot_string` into accepting / chunking / failing sinks
    {
        let mut lens: Vec<usize> = vec![1, 2, 63, 64, 65, 127, 128, 129];
        lens.extend(190..=260);
        lens.extend([511, 512, 513, 1023, 1024, 1025, 4095, 4096, 4097, 8191, 8192, 8193, 65536]);
        let lit = "|1,0,0|1,1,1|0,0,1|";
        let xor2 = "|2,0,0|2,1,1|1,1,0|1,0,1|0,3,2|";
        let (c12, c120) = (chain(12), chain(120));
        for (li, len) in lens.iter().enumerate() {
            let window = (190..=260).contains(len);
            for kind in 0..3usize {
                if *len < 4 && kind == 2 { continue; }
                if !thorough && *len == 65536 && kind == 1 { continue; }
                let name = sized_name(*len, kind);
                both(lit, &[name.clone()], out);
                if window || *len <= 129 {
                    let names = if (li + kind) % 2 == 0 { vec![name.clone(), s("B")] } else { vec![s("A"), name.clone()] };
                    both(xor2, &names, out);
                }
                if window && (kind == 0 || thorough) {
                    let mut n12: Vec<String> = (0..12).map(|i| format!("n{}", i)).collect(); n12[0] = name.clone();
                    both(&c12, &n12, out);
                    if li % 3 == 0 || thorough {
                        let mut n120: Vec<String> = (0..120).map(|i| format!("n{}", i)).collect(); n120[0] = name.clone();
                        both(&c120, &n120, out);
                    }
                }
                if !window || li % 5 == 0 || thorough {
                    for sc in ["~", "*255", "*256", "*4096", "i.*7", "g4096.g4096.g4096.e", "g100000.g100000.g100000.g100000.g100000.g3.e"] {
                        run("C20.write", &[s(lit), enc_names(&[name.clone()]), s("0"), s(sc)], out);
                    }
                    run("C20.write", &[s(lit), enc_names(&[name.clone()]), s("1"), s("*256")], out);
                }
            }
        }
        // texts of total size just below / at / above 8 192 and 65 536 bytes (and short ones) into sinks whose byte budget
        // ends in the last bytes (the failure comes in the LAST chunk, whatever the chunking), in the middle, or not at all
        for p in ["0", "1"] {
            let pruned = p == "1";
            let vs1 = BddVariableSet::new(&["x"]);
            let base = Bdd::from_string(lit).to_dot_string(&vs1, pruned).len() - 1;
            for total in [base + 1, base + 40, 4096, 8191, 8192, 8193, 16384, 65535, 65536, 65537] {
                if total <= base { continue; }
                for kind in [0usize, 2] {
                    if kind == 2 && !(thorough || total == 8192 || total == 65536) { continue; }
                    let name = sized_name(total - base, kind);
                    let mut budgets = vec![0usize, 1, total / 2, total - 2, total - 1, total, total + 1];
                    if total > 8192 { budgets.extend([total - 8192, total - 8191, total - 4097, total - 4096, 8192]); }
                    for b in budgets { run("C20.budget", &[s(lit), enc_names(&[name.clone()]), s(p), b.to_string()], out); }
                }
            }
        }
    }
    // --- one big diagram (node ids with six digits), both pruning modes; thorough: a few more sizes
    {
        let sizes: Vec<(usize, usize)> = if thorough { vec![(40, 131072), (17, 100001), (64, 250000), (12, 99999)] } else { vec![(40, 131072)] };
        for (n, total) in sizes {
            let seed = rng.below(1 << 30);
            for p in ["0", "1"] { run("C20.big", &[n.to_string(), total.to_string(), seed.to_string(), s(p)], out); }
        }
    }
    // --- malformed stream: labels that need escaping (the export does not escape), name count mismatch,
    //     a decision node whose variable has no name
    let weird: [&[&str]; 5] = [&["a\"b", "c"], &["a\\", "b"], &["li\nne", "b"], &["\"", "\\\""], &["c\rr", "b"]];
    for names in weird {
        let names: Vec<String> = names.iter().map(|x| x.to_string()).collect();
        for t in 0..16u64 { both(&fmt_bdd(&bdd_of_tt(2, &tt_from_index(2, t))), &names, out); }
    }
    for n in 0..=3usize {
        for m in 0..=4usize {
            if m == n { continue; }
            let names: Vec<String> = (0..m).map(|i| format!("v{}", i)).collect();
            let t = rng.below(1u64 << (1u64 << n));
            both(&fmt_bdd(&bdd_of_tt(n, &tt_from_index(n, t))), &names, out);
        }
    }
    let invalid = ["|2,0,0|2,1,1|5,0,1|", "|2,0,0|2,1,1|2,0,1|", "|2,0,0|2,1,1|1,0,1|0,2,7|", "|2,0,0|2,1,1|1,0,1|0,2,2|0,3,1|",
        "|2,0,0|2,1,1|1,0,1|0,2,1|9,3,2|1,0,4|", "|2,0,0|2,1,1|1,0,1|2,2,0|0,3,1|", "|1,0,0|1,1,1|5,0,1|"];
    for b in invalid {
        both(b, &[s("a"), s("b")], out);
        // invalid diagrams (constructible through `Bdd::from_string`, which does not validate) into failing sinks: the
        // sink's error comes before / after the node whose variable has no name
        for p in ["0", "1"] {
            for sc in ["~", "*1", "*7", "e", "g3.e", "g40.e", "g100.e", "g150.e", "g170.e", "g200.e", "g260.e", "g400.e", "i.g120.g0", "*5.e"] {
                run("C20.writeinv", &[s(b), enc_names(&[s("a"), s("b")]), s(p), s(sc)], out);
            }
            // the j-th `write` call fails: before, at and after the nameless node
            for j in 0..36usize { run("C20.writeinv", &[s(b), enc_names(&[s("a"), s("b")]), s(p), format!("g4096^{}.e", j)], out); }
            run("C20.pieces", &[s(b), enc_names(&[s("a"), s("b")]), s(p)], out);
        }
    }
    // how `write_fmt` cuts the text into `write_all` pieces (names of several lengths, the empty name, multi-digit ids)
    for _ in 0..(if thorough { 2000 } else { 120 }) {
        let n = 1 + rng.below(6) as usize;
        let b = random_bdd(rng, n);
        let sets = name_sets(n);
        let names: Vec<String> = rng.pick(&sets[..]).clone();
        run("C20.pieces", &[fmt_bdd(&b), enc_names(&names), s(if rng.bool() { "1" } else { "0" })], out);
    }
}

fn main() { harness_main(gen, run) }
