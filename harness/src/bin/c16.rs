//! C16: variable sets, literals, single valuations and threshold constructors are faithful.
//!
//! Names travel hex-encoded (`h<utf8 bytes in hex>`, lists joined by `,`, the empty list is `~`), because a
//! name may contain spaces, commas or be empty.
#[path = "../common.rs"]
mod common;
use biodivine_lib_bdd::*;
use common::*;

fn s(x: &str) -> String { x.to_string() }

fn enc_name(n: &str) -> String {
    let mut r = String::from("h");
    for b in n.as_bytes() { r.push_str(&format!("{:02x}", b)); }
    r
}
fn dec_name(h: &str) -> String {
    let h = &h[1..];
    let bytes: Vec<u8> = (0..h.len() / 2).map(|i| u8::from_str_radix(&h[2 * i..2 * i + 2], 16).unwrap()).collect();
    String::from_utf8(bytes).unwrap()
}
fn enc_names(ns: &[String]) -> String {
    if ns.is_empty() { s("~") } else { ns.iter().map(|n| enc_name(n)).collect::<Vec<_>>().join(",") }
}
fn dec_names(f: &str) -> Vec<String> {
    if f == "~" { vec![] } else { f.split(',').map(dec_name).collect() }
}
fn dec_usizes(f: &str) -> Vec<usize> {
    if f == "~" { vec![] } else { f.split(',').map(|x| x.parse().unwrap()).collect() }
}

/// everything observable about the name/variable maps of a set, probed with `probes`
fn observe_set(vs: &BddVariableSet, probes: &[String]) -> Vec<String> {
    let vars = vs.variables();
    let names_of: Vec<String> = vars.iter().map(|v| vs.name_of(*v)).collect();
    let by_name: Vec<String> = probes.iter().map(|p| fmt_optvar(vs.var_by_name(p).map(|v| v.to_index()))).collect();
    vec![
        vs.num_vars().to_string(),
        fmt_usizes(&vars.iter().map(|v| v.to_index()).collect::<Vec<_>>()),
        enc_names(&names_of),
        enc_names(&vs.variable_names()),
        if by_name.is_empty() { s("~") } else { by_name.join(",") },
    ]
}

pub fn run(key: &str, a: &[String], out: &mut Out) {
    out.begin(key, a);
    match key {
        "C16.new" => {
            // names probes => ok num_vars variables name_of* variable_names var_by_name(probes)* | panic
            let names = dec_names(&a[0]);
            let probes = dec_names(&a[1]);
            let refs: Vec<&str> = names.iter().map(|x| x.as_str()).collect();
            let res = catch(|| { let vs = BddVariableSet::new(&refs); observe_set(&vs, &probes) });
            match res {
                Some(mut o) => { let mut v = vec![s("ok")]; v.append(&mut o); out.case(key, a, &v) }
                None => out.case(key, a, &[s("panic")]),
            }
        }
        "C16.builder" => {
            // names probes => ok returned-variables num_vars … | panic  (one make_variable per name, then build)
            let names = dec_names(&a[0]);
            let probes = dec_names(&a[1]);
            let res = catch(|| {
                let mut b = BddVariableSetBuilder::new();
                let mut ret = vec![];
                for n in &names { ret.push(b.make_variable(n).to_index()); }
                let vs = b.build();
                let mut o = vec![fmt_usizes(&ret)];
                o.append(&mut observe_set(&vs, &probes));
                o
            });
            match res {
                Some(mut o) => { let mut v = vec![s("ok")]; v.append(&mut o); out.case(key, a, &v) }
                None => out.case(key, a, &[s("panic")]),
            }
        }
        "C16.batch" => {
            // same through make_variables (one call)
            let names = dec_names(&a[0]);
            let probes = dec_names(&a[1]);
            let refs: Vec<&str> = names.iter().map(|x| x.as_str()).collect();
            let res = catch(|| {
                let mut b = BddVariableSetBuilder::new();
                let ret: Vec<usize> = b.make_variables(&refs).iter().map(|v| v.to_index()).collect();
                let vs = b.build();
                let mut o = vec![fmt_usizes(&ret)];
                o.append(&mut observe_set(&vs, &probes));
                o
            });
            match res {
                Some(mut o) => { let mut v = vec![s("ok")]; v.append(&mut o); out.case(key, a, &v) }
                None => out.case(key, a, &[s("panic")]),
            }
        }
        "C16.anon" => {
            // k probes => ok … | panic
            let k: u16 = a[0].parse().unwrap();
            let probes = dec_names(&a[1]);
            let res = catch(|| { let vs = BddVariableSet::new_anonymous(k); observe_set(&vs, &probes) });
            match res {
                Some(mut o) => { let mut v = vec![s("ok")]; v.append(&mut o); out.case(key, a, &v) }
                None => out.case(key, a, &[s("panic")]),
            }
        }
        "C16.limit" => {
            // ctor count => ok num_vars var_by_name(last name) name_of(last variable) | panic; names are v0, v1, …
            let count: usize = a[1].parse().unwrap();
            let names: Vec<String> = (0..count).map(|i| format!("v{}", i)).collect();
            let res = catch(|| {
                let vs = match a[0].as_str() {
                    "new" => { let refs: Vec<&str> = names.iter().map(|x| x.as_str()).collect(); BddVariableSet::new(&refs) }
                    "builder" => { let mut b = BddVariableSetBuilder::new(); for n in &names { b.make_variable(n); } b.build() }
                    "anon" => BddVariableSet::new_anonymous(count as u16),
                    _ => panic!("bad ctor"),
                };
                let last = if a[0] == "anon" { format!("x_{}", count - 1) } else { format!("v{}", count - 1) };
                let v = vs.var_by_name(&last);
                vec![vs.num_vars().to_string(), fmt_optvar(v.map(|v| v.to_index())), enc_name(&vs.name_of(var(count - 1)))]
            });
            match res {
                Some(mut o) => { let mut v = vec![s("ok")]; v.append(&mut o); out.case(key, a, &v) }
                None => out.case(key, a, &[s("panic")]),
            }
        }
        "C16.const" => {
            let n: u16 = a[0].parse().unwrap();
            let vs = BddVariableSet::new_anonymous(n);
            out.case(key, a, &[fmt_res_bdd(&catch(|| vs.mk_true())), fmt_res_bdd(&catch(|| vs.mk_false()))]);
        }
        "C16.lit" => {
            // n x => mk_var mk_not_var mk_literal(true) mk_literal(false) mk_var_by_name mk_not_var_by_name   (x < n)
            let n: u16 = a[0].parse().unwrap();
            let x: usize = a[1].parse().unwrap();
            let vs = BddVariableSet::new_anonymous(n);
            let name = format!("x_{}", x);
            out.case(key, a, &[
                fmt_res_bdd(&catch(|| vs.mk_var(var(x)))),
                fmt_res_bdd(&catch(|| vs.mk_not_var(var(x)))),
                fmt_res_bdd(&catch(|| vs.mk_literal(var(x), true))),
                fmt_res_bdd(&catch(|| vs.mk_literal(var(x), false))),
                fmt_res_bdd(&catch(|| vs.mk_var_by_name(&name))),
                fmt_res_bdd(&catch(|| vs.mk_not_var_by_name(&name))),
            ]);
        }
        "C16.litname" => {
            // names name => mk_var_by_name mk_not_var_by_name  (unknown names panic)
            let names = dec_names(&a[0]);
            let name = dec_name(&a[1]);
            let refs: Vec<&str> = names.iter().map(|x| x.as_str()).collect();
            match catch(|| BddVariableSet::new(&refs)) {
                Some(vs) => out.case(key, a, &[
                    fmt_res_bdd(&catch(|| vs.mk_var_by_name(&name))),
                    fmt_res_bdd(&catch(|| vs.mk_not_var_by_name(&name))),
                ]),
                None => out.case(key, a, &[s("panic"), s("panic")]),
            }
        }
        "C16.val" => {
            // bits => Bdd::from(valuation)
            let v: Vec<bool> = if a[0] == "~" { vec![] } else { a[0].chars().map(|c| c == '1').collect() };
            out.case(key, a, &[fmt_res_bdd(&catch(|| Bdd::from(BddValuation::new(v))))]);
        }
        // `…B`: the same calls with a large `k`, under keys of their own (the replay of the translated model, which
        // loops `k` times in Lean, skips them; a few large-`k` cases stay under the plain keys)
        "C16.exactly" | "C16.upto" | "C16.exactlyB" | "C16.uptoB" => {
            // n k vars => bdd | panic
            let n: u16 = a[0].parse().unwrap();
            let k: usize = a[1].parse().unwrap();
            let vars: Vec<BddVariable> = dec_usizes(&a[2]).into_iter().map(var).collect();
            let vs = BddVariableSet::new_anonymous(n);
            let res = if key.starts_with("C16.exactly") { catch(|| vs.mk_sat_exactly_k(k, &vars)) } else { catch(|| vs.mk_sat_up_to_k(k, &vars)) };
            out.case(key, a, &[fmt_res_bdd(&res)]);
        }
        _ => panic!("unknown key {}", key),
    }
}

/// all lists over `alphabet` with length <= `max_len`
fn all_lists(alphabet: &[&str], max_len: usize) -> Vec<Vec<String>> {
    let mut res: Vec<Vec<String>> = vec![vec![]];
    let mut layer: Vec<Vec<String>> = vec![vec![]];
    for _ in 0..max_len {
        let mut next = vec![];
        for l in &layer { for c in alphabet { let mut m = l.clone(); m.push(c.to_string()); next.push(m); } }
        res.extend(next.iter().cloned());
        layer = next;
    }
    res
}

fn subsets_as_lists(n: usize) -> Vec<Vec<usize>> {
    (0..(1usize << n)).map(|m| (0..n).filter(|i| (m >> i) & 1 == 1).collect()).collect()
}

fn shuffle(rng: &mut Rng64, v: &mut Vec<usize>) {
    for i in (1..v.len()).rev() { let j = rng.below(i as u64 + 1) as usize; v.swap(i, j); }
}

pub fn gen(tier: Tier, rng: &mut Rng64, out: &mut Out) {
    let thorough = tier == Tier::Thorough;

    // --- name lists: all lists of length <= 3 over a small alphabet with valid names, the empty name, every
    //     forbidden character (alone / embedded), names that differ only by case or a space, non-ASCII
    let alpha_q: Vec<&str> = vec!["a", "b", "ab", "", "A", "a b", "é", "a!", "&", "x|y", "(", "q?", "p:"];
    let alpha_t: Vec<&str> = vec!["a", "b", "ab", "", "A", "a b", " a", "é", "x_0", "0", "a!", "!", "&", "x|y", "^", "=", "a<", ">", "(", ")", "q?", "p:", "\"", "\\", "a\nb"];
    let alphabet = if thorough { alpha_t } else { alpha_q };
    let probes_extra = [s("a"), s("zz"), s(""), s("x_0"), s("A")];
    for names in all_lists(&alphabet, 3) {
        let mut probes = names.clone();
        probes.extend(probes_extra.iter().cloned());
        let (f, p) = (enc_names(&names), enc_names(&probes));
        run("C16.new", &[f.clone(), p.clone()], out);
        run("C16.builder", &[f.clone(), p.clone()], out);
        if thorough || rng.chance(1, 4) { run("C16.batch", &[f.clone(), p.clone()], out); }
    }
    // longer lists of valid names with a duplicate somewhere (or none)
    for _ in 0..(if thorough { 3000 } else { 300 }) {
        let len = 4 + rng.below(10) as usize;
        let mut names: Vec<String> = (0..len).map(|i| format!("n{}", i)).collect();
        match rng.below(4) {
            0 => { let (i, j) = (rng.below(len as u64) as usize, rng.below(len as u64) as usize); names[i] = names[j].clone(); }
            1 => { let i = rng.below(len as u64) as usize; names[i].push(*rng.pick(&['!', '&', '|', '^', '=', '<', '>', '(', ')', '?', ':'])); }
            _ => {}
        }
        let mut probes = names.clone();
        probes.push(s("n99"));
        let (f, p) = (enc_names(&names), enc_names(&probes));
        run("C16.new", &[f.clone(), p.clone()], out);
        run("C16.builder", &[f.clone(), p.clone()], out);
        run("C16.batch", &[f, p], out);
    }
    // anonymous sets
    for k in 0..(if thorough { 40 } else { 12 }) {
        let probes: Vec<String> = vec![s("x_0"), format!("x_{}", k), format!("x_{}", k.max(1) - 1), s("x"), s("x_"), s("x_00"), s("")];
        run("C16.anon", &[k.to_string(), enc_names(&probes)], out);
    }
    // the limits: `new`/`new_anonymous` refuse 65534 names, the builder refuses the 65535th
    for ctor in ["new", "builder", "anon"] {
        for count in [65533usize, 65534, 65535] { run("C16.limit", &[s(ctor), count.to_string()], out); }
        if thorough { run("C16.limit", &[s(ctor), s("1000")], out); }
    }

    // --- constants and literals
    let nmax = if thorough { 9 } else { 6 };
    for n in 0..=nmax {
        run("C16.const", &[n.to_string()], out);
        for x in 0..n { run("C16.lit", &[n.to_string(), x.to_string()], out); }
    }
    for names in all_lists(&["a", "b", "c d", ""], 3) {
        for p in ["a", "b", "c d", "", "c", "x_0", "A"] { run("C16.litname", &[enc_names(&names), enc_name(p)], out); }
    }
    // a few large sets
    for _ in 0..(if thorough { 200 } else { 30 }) {
        let n = 10 + rng.below(3000) as usize;
        let x = rng.below(n as u64) as usize;
        run("C16.lit", &[n.to_string(), x.to_string()], out);
    }

    // --- single valuations: all valuations over <= 5 (thorough: 9) variables
    for n in 0..=(if thorough { 9 } else { 5 }) {
        for i in 0..(1usize << n) { run("C16.val", &[fmt_bools(&val_of_index(n, i))], out); }
    }
    for _ in 0..(if thorough { 500 } else { 50 }) {
        let n = 10 + rng.below(40) as usize;
        let v: Vec<bool> = (0..n).map(|_| rng.bool()).collect();
        run("C16.val", &[fmt_bools(&v)], out);
    }

    // --- thresholds: all variable subsets (as sorted lists) x k = 0 … len + 2
    let nsat = if thorough { 9 } else { 6 };
    for n in 0..=nsat {
        for vars in subsets_as_lists(n) {
            for k in 0..=(vars.len() + 2) {
                for key in ["C16.exactly", "C16.upto"] {
                    run(key, &[n.to_string(), k.to_string(), fmt_usizes(&vars)], out);
                }
            }
            // the same set in another order
            if vars.len() >= 2 && (thorough || n <= 5) {
                let mut sh = vars.clone();
                shuffle(rng, &mut sh);
                let mut rv = vars.clone();
                rv.reverse();
                for l in [sh, rv] {
                    let k = rng.below(l.len() as u64 + 2) as usize;
                    for key in ["C16.exactly", "C16.upto"] { run(key, &[n.to_string(), k.to_string(), fmt_usizes(&l)], out); }
                }
            }
        }
    }
    // --- thresholds at integer-width boundaries (`k` is a `usize`; the code loops `k` times, so the values are capped at
    //     what the unmodified code runs in about a second: 2^20 for short lists; 2^32 and beyond would take from minutes
    //     (empty list) to hours and are not run)
    {
        let n = 7usize;
        let mut lists: Vec<Vec<usize>> = vec![vec![]];
        for len in 1..=6usize {
            let asc: Vec<usize> = (0..len).map(|i| (i * 7 / len).min(6)).collect::<std::collections::BTreeSet<_>>().into_iter().collect();
            let asc: Vec<usize> = if asc.len() == len { asc } else { (0..len).collect() };
            let mut desc = asc.clone(); desc.reverse();
            let mut rep = asc.clone(); rep.push(asc[0]); rep.insert(1.min(rep.len()), asc[asc.len() - 1]);
            lists.push(asc); lists.push(desc); lists.push(rep);
        }
        for (li, vars) in lists.iter().enumerate() {
            let len = vars.len();
            let mut ks: Vec<usize> = vec![len.saturating_sub(1), len, len + 1, 255, 256, 257];
            let heavy = thorough || len <= 2 || (li % 3 == 1 && len % 2 == 0);
            if heavy { ks.extend([65534, 65535, 65536, 65537, 65536 + len]); } else { ks.extend([65535, 65536]); }
            if thorough || len <= 2 || li == lists.len() - 3 { ks.push(1 << 17); }
            if thorough || len <= 1 { ks.push(1 << 20); }
            if thorough && len <= 2 { ks.push((1 << 20) + 1); }
            ks.sort(); ks.dedup();
            for k in ks {
                for key in ["C16.exactly", "C16.upto"] {
                    let key = if k >= 1000 { format!("{}B", key) } else { s(key) };
                    run(&key, &[n.to_string(), k.to_string(), fmt_usizes(vars)], out);
                }
            }
        }
        // the smallest inputs on which a 16-bit truncation of `k` shows, spelled out
        for key in ["C16.exactly", "C16.upto"] {
            run(key, &[s("0"), s("65536"), s("~")], out);
            run(key, &[s("4"), s("65536"), s("1,3")], out);
            run(key, &[s("4"), s("65537"), s("1,3")], out);
            run(key, &[s("4"), s("131072"), s("3,1")], out);
        }
        // one list with 20 variables
        let vars20: Vec<usize> = (0..20).collect();
        let ks20: Vec<usize> = if thorough { vec![19, 20, 21, 255, 256, 257, 65535, 65536, 65537] } else { vec![19, 20, 21, 255, 256, 257, 65536] };
        for k in ks20 {
            for key in ["C16.exactly", "C16.upto"] {
                // 65 536 rounds over 20 variables take about 4 s in the unmodified code: quick runs them for one constructor
                if !thorough && k >= 65536 && key == "C16.upto" { continue; }
                let key = if k >= 1000 { format!("{}B", key) } else { s(key) };
                run(&key, &[s("20"), k.to_string(), fmt_usizes(&vars20)], out);
            }
        }
    }
    // lists with duplicates, all lists of length <= 3 over <= 3 variables (any order), every k
    for n in 1..=3usize {
        let alphabet: Vec<String> = (0..n).map(|i| i.to_string()).collect();
        let refs: Vec<&str> = alphabet.iter().map(|x| x.as_str()).collect();
        for l in all_lists(&refs, if thorough { 4 } else { 3 }) {
            let vars: Vec<usize> = l.iter().map(|x| x.parse().unwrap()).collect();
            for k in 0..=(vars.len() + 1) {
                for key in ["C16.exactly", "C16.upto"] { run(key, &[n.to_string(), k.to_string(), fmt_usizes(&vars)], out); }
            }
        }
    }
    // random lists (duplicates, any order) over more variables
    for _ in 0..(if thorough { 30000 } else { 400 }) {
        let n = 4 + rng.below(if thorough { 9 } else { 5 }) as usize;
        let len = rng.below(n as u64 + 3) as usize;
        let vars: Vec<usize> = (0..len).map(|_| rng.below(n as u64) as usize).collect();
        let k = rng.below(len as u64 + 3) as usize;
        for key in ["C16.exactly", "C16.upto"] { run(key, &[n.to_string(), k.to_string(), fmt_usizes(&vars)], out); }
    }
    // malformed stream: a listed variable that is not in the set trips the assertion of mk_conjunctive_clause
    for n in 0..=3usize {
        for extra in [n, n + 1, n + 7] {
            for k in 0..=2usize {
                let mut vars: Vec<usize> = (0..n).collect();
                vars.insert(rng.below(n as u64 + 1) as usize, extra);
                for key in ["C16.exactly", "C16.upto"] { run(key, &[n.to_string(), k.to_string(), fmt_usizes(&vars)], out); }
            }
        }
    }
}

fn main() { harness_main(gen, run) }
