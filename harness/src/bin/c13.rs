//! C13: deserialisers and validate() are safe on arbitrary input.
//!
//! Case kinds (inputs => observed):
//!   C13.text  <hex of the bytes>  => <ok|err|panic> <bdd|~> <to_string of the accepted value (x:hex if it contains blanks)|~> <validate> <evals> <count> <and(true)>
//!   C13.bytes <hex of the bytes>  => <ok|err|panic> <bdd|~> <validate> <evals> <count> <and(true)>
//!   C13.nodes <|v,l,h|…|>         => <ok|err|panic> <bdd|~> <validate> <evals> <count> <and(true)>
//! validate: vok | verr | vpanic | vhang | - (not run); the last three are run only for a value that `validate`
//! (text, bytes) or `from_nodes` (nodes) accepted, each in a watched thread: evals = eval_in on all valuations
//! (bit string, variable 0 most significant; `panic`, `hang`, `-` if more than 10 variables), count =
//! exact_cardinality (`-` if more than 16 variables), and(true) = the result of `b.and(&true)`.
#[path = "../common.rs"]
mod common;
#[path = "../serial_io.rs"]
mod serial_io;
use biodivine_lib_bdd::*;
use common::*;
use serial_io::*;
use std::io::Read;
use std::sync::atomic::{AtomicUsize, Ordering};
use std::sync::mpsc;
use std::time::Duration;

fn s(x: &str) -> String { x.to_string() }

static HANGS: AtomicUsize = AtomicUsize::new(0);
const MAX_HANGS: usize = 12;

enum Watched<T> { Done(T), Panic, Hang, Skipped }
/// run `f` in its own thread; a panic and a hang (no answer within 2 s) are outcomes. A hung thread cannot be
/// killed and keeps spinning, so after `MAX_HANGS` of them nothing more is started (`noeval`).
fn watched<T: Send + 'static>(f: impl FnOnce() -> T + Send + 'static) -> Watched<T> {
    if HANGS.load(Ordering::SeqCst) >= MAX_HANGS { return Watched::Skipped; }
    let (tx, rx) = mpsc::channel();
    std::thread::Builder::new().stack_size(64 << 20).spawn(move || { let r = catch(f); let _ = tx.send(r); }).expect("spawn");
    match rx.recv_timeout(Duration::from_millis(2000)) {
        Ok(Some(v)) => Watched::Done(v),
        Ok(None) => Watched::Panic,
        Err(_) => { HANGS.fetch_add(1, Ordering::SeqCst); Watched::Hang }
    }
}
fn w_str(w: Watched<String>) -> String {
    match w { Watched::Done(v) => v, Watched::Panic => s("panic"), Watched::Hang => s("hang"), Watched::Skipped => s("noeval") }
}

fn validate_field(b: &Bdd) -> String {
    let b = b.clone();
    match watched(move || b.validate().is_ok()) {
        Watched::Done(true) => s("vok"), Watched::Done(false) => s("verr"), Watched::Panic => s("vpanic"), Watched::Hang => s("vhang"), Watched::Skipped => s("noeval"),
    }
}
/// evals, count, and(true) of an accepted value
fn accepted_fields(b: &Bdd) -> [String; 3] {
    let n = match catch(|| b.num_vars()) { Some(n) => n as usize, None => return [s("panic"), s("panic"), s("panic")] };
    let evals = if n <= 10 {
        let b2 = b.clone();
        w_str(watched(move || { let v: String = (0..(1usize << n)).map(|i| if b2.eval_in(&BddValuation::new(val_of_index(n, i))) { '1' } else { '0' }).collect(); v }))
    } else { s("-") };
    let count = if n <= 16 { let b2 = b.clone(); w_str(watched(move || b2.exact_cardinality().to_string())) } else { s("-") };
    let b2 = b.clone();
    let and = w_str(watched(move || { let t = Bdd::from_nodes(&nodes_of(&[(n as u64, 0, 0), (n as u64, 1, 1)])).expect("true"); fmt_bdd(&b2.and(&t)) }));
    [evals, count, and]
}
fn dash3() -> [String; 3] { [s("-"), s("-"), s("-")] }

/// every case runs under a guard: a panic of the harness itself is the observation `harness-panic`, never the death of the generator
pub fn run(key: &str, a: &[String], out: &mut Out) {
    out.begin(key, a);
    if catch(|| run_inner(key, a, &mut *out)).is_none() { out.case(key, a, &[s("harness-panic")]); }
}
fn run_inner(key: &str, a: &[String], out: &mut Out) {
    match key {
        "C13.text" | "C13.bytes" => {
            let data = unhex(&a[0]);
            let is_text = key == "C13.text";
            let r = catch(|| { let mut sl: &[u8] = &data; let dr: &mut dyn Read = &mut sl; if is_text { Bdd::read_as_string(dr).ok() } else { Bdd::read_as_bytes(dr).ok() } });
            let mut obs = vec![];
            match r {
                None => { obs.push(s("panic")); obs.push(s("~")); if is_text { obs.push(s("~")); } obs.push(s("-")); obs.extend(dash3()); }
                Some(None) => { obs.push(s("err")); obs.push(s("~")); if is_text { obs.push(s("~")); } obs.push(s("-")); obs.extend(dash3()); }
                Some(Some(b)) => {
                    obs.push(s("ok"));
                    obs.push(fmt_bdd(&b));
                    if is_text { obs.push(catch(|| b.to_string()).map(|x| text_field(&x)).unwrap_or(s("panic"))); }
                    let v = validate_field(&b);
                    let acc = if v == "vok" { accepted_fields(&b) } else { dash3() };
                    obs.push(v);
                    obs.extend(acc);
                }
            }
            out.case(key, a, &obs);
        }
        "C13.nodes" => {
            let t = parse_triples(&a[0]);
            let nodes = nodes_of(&t);
            let r = catch(|| Bdd::from_nodes(&nodes).ok());
            let mut obs = vec![];
            match r {
                None => { obs.push(s("panic")); obs.push(s("~")); obs.push(s("-")); obs.extend(dash3()); }
                Some(None) => { obs.push(s("err")); obs.push(s("~")); obs.push(s("-")); obs.extend(dash3()); }
                Some(Some(b)) => {
                    obs.push(s("ok"));
                    obs.push(fmt_bdd(&b));
                    obs.push(validate_field(&b));
                    obs.extend(accepted_fields(&b));
                }
            }
            out.case(key, a, &obs);
        }
        _ => panic!("unknown key {}", key),
    }
}

const BIG: [&str; 5] = ["65535", "65536", "4294967295", "4294967296", "340282366920938463463374607431768211456"];
fn token(rng: &mut Rng64, class: usize) -> String {
    match class {
        0 => s(*rng.pick(&["0", "1", "2", "3", "0", "1"])),
        1 => s(*rng.pick(&BIG)),
        2 => s(","),
        3 => s("|"),
        4 => s(*rng.pick(&[" ", " ", "\t", "\u{a0}"])),
        5 => s("+"),
        6 => s("-"),
        _ => s(*rng.pick(&["a", "x", "e", "_"])),
    }
}
fn token_strings(depth: usize, rng: &mut Rng64, out: &mut Out, with_header: bool) {
    let mut idx = vec![0usize; depth];
    loop {
        let st: String = idx.iter().map(|c| token(rng, *c)).collect();
        run("C13.text", &[hex(st.as_bytes())], out);
        if with_header {
            let st2 = format!("|2,0,0|2,1,1{}", st);
            run("C13.text", &[hex(st2.as_bytes())], out);
        }
        let mut p = depth;
        loop {
            if p == 0 { return; }
            p -= 1;
            idx[p] += 1;
            if idx[p] < 8 { break; }
            idx[p] = 0;
        }
    }
}

fn mutate_text(rng: &mut Rng64, text: &str) -> Vec<u8> {
    let mut c: Vec<char> = text.chars().collect();
    let n = c.len();
    let pos = rng.below(n as u64 + 1) as usize;
    match rng.below(14) {
        0 => { if pos < n { c.remove(pos); } }
        1 => { c.insert(pos, '|'); }
        2 => { c.insert(pos, ','); }
        3 => { for ch in rng.pick(&BIG).chars().rev() { c.insert(pos, ch); } }
        4 => { c.insert(pos, *rng.pick(&['a', '-', '+', '_', '.', 'e'])); }
        5 => { c.insert(pos, *rng.pick(&[' ', '\n', '\u{a0}', '\u{2003}', '\u{3000}', '\u{200b}', '\u{feff}'])); }
        6 => { c.truncate(pos); }
        7 => {
            // drop one field of a record
            if let Some(p) = c.iter().position(|x| *x == ',') { let mut q = p + 1; while q < c.len() && c[q].is_ascii_digit() { q += 1; } c.drain(p..q); }
        }
        8 => {
            // add a fourth field
            let bars: Vec<usize> = c.iter().enumerate().filter(|(i, x)| **x == '|' && *i > 0).map(|(i, _)| i).collect();
            if !bars.is_empty() { let p = *rng.pick(&bars); for ch in ",7".chars().rev() { c.insert(p, ch); } }
        }
        9 => { if pos < n && c[pos].is_ascii_digit() { c[pos] = *rng.pick(&['0', '1', '2', '3', '4', '9']); } }
        10 => { if pos < n { let x = c[pos]; c.insert(pos, x); } }
        11 => { c.insert(pos, '0'); }
        12 => { if n >= 2 { let q = rng.below(n as u64) as usize; c.swap(pos.min(n - 1), q); } }
        _ => {
            // raw byte damage: invalid UTF-8
            let mut b: Vec<u8> = text.as_bytes().to_vec();
            let p = rng.below(b.len() as u64 + 1) as usize;
            let bad: &[u8] = *rng.pick(&[&[0xFFu8][..], &[0xC0, 0x80], &[0xE2, 0x80], &[0xED, 0xA0, 0x80], &[0xF4, 0x90, 0x80, 0x80], &[0x80], &[0xC2]]);
            for (i, x) in bad.iter().enumerate() { b.insert(p + i, *x); }
            return b;
        }
    }
    c.into_iter().collect::<String>().into_bytes()
}

/// the exhaustive universe of small node arrays: terminals from 16 candidates each, inner nodes
/// var 0..=2, links 0..=4
fn term_candidates() -> Vec<(u64, u64, u64)> {
    let mut v = vec![];
    for var in 0..4u64 { for (l, h) in [(0u64, 0u64), (1, 1), (0, 1), (1, 0)] { v.push((var, l, h)); } }
    v
}
fn inner_candidates() -> Vec<(u64, u64, u64)> {
    let mut v = vec![];
    for var in 0..3u64 { for l in 0..5u64 { for h in 0..5u64 { v.push((var, l, h)); } } }
    v
}
fn array_cases(t: &[(u64, u64, u64)], text_too: bool, out: &mut Out) {
    let txt = fmt_triples64(t);
    run("C13.nodes", &[txt.clone()], out);
    if text_too { run("C13.text", &[hex(txt.as_bytes())], out); }
}

/// one `|`-delimited item of exactly `len` bytes: ASCII filler (digits, or digits and letters) with `commas`
/// commas at random ASCII positions and, if `wide` is given, that character placed at byte offset `at`
fn long_item(rng: &mut Rng64, len: usize, commas: usize, wide: Option<(char, usize)>, letters: bool) -> Vec<u8> {
    let mut b: Vec<u8> = (0..len).map(|_| if letters && rng.chance(1, 5) { *rng.pick(&[b'a', b'x', b'_', b'-', b'+']) } else { b'0' + rng.below(10) as u8 }).collect();
    let mut protected = vec![false; len];
    if let Some((c, at)) = wide {
        let mut buf = [0u8; 4];
        let enc = c.encode_utf8(&mut buf).as_bytes();
        for (i, x) in enc.iter().enumerate() { b[at + i] = *x; protected[at + i] = true; }
    }
    let free: Vec<usize> = (0..len).filter(|i| !protected[*i]).collect();
    if !free.is_empty() {
        for _ in 0..commas.min(free.len()) { b[*rng.pick(&free)] = b','; }
    }
    b
}
/// Long malformed and long valid items: every item length, a 2-, 3- and 4-byte character at EVERY byte offset of
/// the item (so that any byte-offset slicing of an item in an error path meets a non-boundary), 0..=4 commas;
/// alone, between bars, and inside an otherwise valid serialisation; very long numbers; very long valid items.
fn long_item_cases(rng: &mut Rng64, out: &mut Out, thorough: bool) {
    let lens: Vec<usize> = if thorough { (1..=80).collect() } else {
        (1..=80usize).filter(|l| *l <= 6 || [14, 15, 16, 17, 18, 22, 23, 24, 25, 26, 27, 30, 31, 32, 33, 34, 40, 46, 47, 48, 49, 50, 56, 62, 63, 64, 65, 66, 72, 80].contains(l)).collect()
    };
    let wides = ['\u{e9}', '\u{20ac}', '\u{1F600}'];
    let emit = |item: &[u8], rng: &mut Rng64, out: &mut Out, all_ctx: bool| {
        let ctx = if all_ctx { 4 } else { 1 + rng.below(3) };
        let mut t: Vec<u8> = vec![];
        match ctx {
            0 | 4 => { t.extend_from_slice(item); }
            1 => { t.push(b'|'); t.extend_from_slice(item); t.push(b'|'); }
            2 => { t.extend_from_slice(b"|2,0,0|2,1,1|"); t.extend_from_slice(item); t.extend_from_slice(b"|0,0,1|"); }
            _ => { t.extend_from_slice(b" |\t2,0,0|"); t.extend_from_slice(item); t.push(b'|'); }
        }
        run("C13.text", &[hex(&t)], out);
        if ctx == 4 {
            let mut t2 = vec![b'|']; t2.extend_from_slice(item); t2.push(b'|');
            run("C13.text", &[hex(&t2)], out);
            let mut t3 = b"|2,0,0|2,1,1|".to_vec(); t3.extend_from_slice(item); t3.extend_from_slice(b"|0,0,1|");
            run("C13.text", &[hex(&t3)], out);
        }
    };
    for &len in &lens {
        // ASCII-only long items with every comma count
        for commas in 0..=4usize {
            let it = long_item(rng, len, commas, None, commas % 2 == 1);
            emit(&it, rng, out, thorough);
        }
        for &w in &wides {
            let wl = w.len_utf8();
            if len < wl { continue; }
            for at in 0..=(len - wl) {
                let comma_counts: Vec<usize> = if thorough { (0..=4).collect() } else { vec![(at + len) % 5, (at + len + 2) % 5] };
                for commas in comma_counts {
                    let letters = rng.chance(1, 3);
                    let it = long_item(rng, len, commas, Some((w, at)), letters);
                    emit(&it, rng, out, thorough && commas == 0);
                }
            }
        }
        // two wide characters
        if len >= 8 {
            for _ in 0..(if thorough { 8 } else { 2 }) {
                let (nc, wc, wa) = (rng.below(5) as usize, *rng.pick(&wides), rng.below(len as u64 - 7) as usize);
                let mut it = long_item(rng, len, nc, Some((wc, wa)), false);
                let at2 = len - 4;
                let mut buf = [0u8; 4];
                let enc = '\u{1F600}'.encode_utf8(&mut buf).as_bytes().to_vec();
                for (i, x) in enc.iter().enumerate() { it[at2 + i] = *x; }
                if std::str::from_utf8(&it).is_ok() { emit(&it, rng, out, false); }
            }
        }
    }
    // very long numbers in each field (valid with leading zeros, overflowing without), very long valid items
    let mut number_lens: Vec<usize> = (1..=80).collect();
    number_lens.extend_from_slice(&[100, 255, 256, 257, 1000, 4096, 70000]);
    for &l in &number_lens {
        if !thorough && l > 12 && l < 80 && ![16, 20, 23, 24, 25, 32, 39, 40, 48, 64].contains(&l) { continue; }
        let zeros = "0".repeat(l - 1);
        let nines = "9".repeat(l);
        let ones = format!("1{}", "0".repeat(l - 1));
        for num in [format!("{}1", zeros), nines.clone(), ones.clone(), format!("+{}1", zeros), format!("{}65535", zeros), format!("{}4294967295", zeros), format!("{}4294967296", zeros)] {
            for field in 0..3 {
                let mut f = [s("1"), s("0"), s("0")];
                f[field] = num.clone();
                let rec = format!("{},{},{}", f[0], f[1], f[2]);
                if l <= 80 || field == 1 {
                    run("C13.text", &[hex(format!("|2,0,0|2,1,1|{}|", rec).as_bytes())], out);
                }
            }
        }
        // a valid item made long by whitespace (incl. 3-byte whitespace) that `retain` removes
        let pad: String = (0..l).map(|i| if i % 3 == 0 { '\u{3000}' } else if i % 3 == 1 { ' ' } else { '\u{a0}' }).collect();
        if l <= 1000 {
            run("C13.text", &[hex(format!("|2,0,0|2,1,1|0{},0,{}1|", pad, pad).as_bytes())], out);
            run("C13.text", &[hex(format!("|2,0,0|2,1,1|0{},0|", pad).as_bytes())], out);
        }
    }
    // many records / many empty items
    for &k in &[30usize, 300, 3000] {
        if !thorough && k > 300 { continue; }
        run("C13.text", &[hex(format!("|2,0,0|2,1,1{}", "|0,0,1".repeat(k)).as_bytes())], out);
        run("C13.text", &[hex("|".repeat(k).as_bytes())], out);
        run("C13.text", &[hex(",".repeat(k).as_bytes())], out);
        run("C13.text", &[hex(format!("|{}|", ",".repeat(k)).as_bytes())], out);
    }
}

pub fn gen(tier: Tier, rng: &mut Rng64, out: &mut Out) {
    let thorough = tier == Tier::Thorough;
    // --- small node arrays, exhaustively (sizes 1-3; size 4 with exact terminals; thorough: all of size 4)
    let terms = term_candidates();
    let inner = inner_candidates();
    run("C13.text", &[s("~")], out);
    run("C13.bytes", &[s("~")], out);
    for a in &terms { array_cases(&[*a], true, out); }
    for a in &terms { for b in &terms { array_cases(&[*a, *b], true, out); } }
    for a in &terms { for b in &terms { for c in &inner {
        let exact = a.1 == 0 && a.2 == 0 && b.1 == 1 && b.2 == 1 && a.0 == b.0;
        array_cases(&[*a, *b, *c], thorough || exact || rng.chance(1, 4), out);
    } } }
    for a in &terms { for b in &terms {
        let exact = a.1 == 0 && a.2 == 0 && b.1 == 1 && b.2 == 1 && a.0 == b.0 && a.0 >= 1 && a.0 <= 2;
        if !(exact || thorough) { continue; }
        for c in &inner { for d in &inner { array_cases(&[*a, *b, *c, *d], exact && (thorough || rng.chance(1, 3)), out); } }
    } }
    // size 4 with damaged terminals, sampled in the quick tier
    if !thorough {
        for _ in 0..4000 { array_cases(&[*rng.pick(&terms), *rng.pick(&terms), *rng.pick(&inner), *rng.pick(&inner)], rng.chance(1, 3), out); }
    }
    // size 5 sampled (links <= 4 all in range)
    for _ in 0..(if thorough { 200000 } else { 4000 }) {
        let n = 1 + rng.below(3);
        let t = [(n, 0, 0), (n, 1, 1), *rng.pick(&inner), *rng.pick(&inner), *rng.pick(&inner)];
        array_cases(&t, rng.chance(1, 2), out);
    }
    // --- token strings over {digit, big number, ',', '|', space, '+', '-', letter}
    let depth = if thorough { 7 } else { 5 };
    for d in 1..=depth { token_strings(d, rng, out, d <= 3); }
    // --- mutated valid serialisations (text and binary), random bytes
    let rounds = if thorough { 60000 } else { 3000 };
    for _ in 0..rounds {
        let n = rng.below(4) as usize;
        let t = canon_triples(n, &random_tt(rng, n));
        let text = fmt_triples(&t);
        let mut m = mutate_text(rng, &text);
        if rng.chance(1, 4) { m = mutate_text(rng, &String::from_utf8_lossy(&m)); }
        run("C13.text", &[hex(&m)], out);
        let t64: Vec<(u64, u64, u64)> = t.iter().map(|(a, b, c)| (*a as u64, *b as u64, *c as u64)).collect();
        let mut by = vec![];
        for (v, l, h) in &t64 { by.extend_from_slice(&(*v as u16).to_le_bytes()); by.extend_from_slice(&(*l as u32).to_le_bytes()); by.extend_from_slice(&(*h as u32).to_le_bytes()); }
        match rng.below(5) {
            0 => { let p = rng.below(by.len() as u64 + 1) as usize; by.truncate(p); }
            1 => { if !by.is_empty() { let p = rng.below(by.len() as u64) as usize; by[p] = rng.next() as u8; } }
            2 => { if !by.is_empty() { let p = rng.below(by.len() as u64) as usize; by[p] ^= 1 << rng.below(8); } }
            3 => { for _ in 0..rng.below(12) { by.push(rng.next() as u8); } }
            _ => { if !by.is_empty() { let p = rng.below(by.len() as u64) as usize; by.remove(p); } }
        }
        run("C13.bytes", &[hex(&by)], out);
    }
    for _ in 0..rounds {
        let len = rng.below(46) as usize;
        let small = rng.bool();
        let by: Vec<u8> = (0..len).map(|_| if small { (rng.below(3)) as u8 } else { rng.next() as u8 }).collect();
        run("C13.bytes", &[hex(&by)], out);
        let tx: Vec<u8> = (0..len).map(|_| match rng.below(10) { 0 => rng.next() as u8, 1 => b'|', 2 => b',', _ => b'0' + rng.below(4) as u8 }).collect();
        run("C13.text", &[hex(&tx)], out);
    }
    // --- long items with multi-byte characters at every byte offset, long numbers, long valid items
    long_item_cases(rng, out, thorough);
    // --- valid but non-canonical diagrams (unreachable nodes, duplicates) through from_nodes / validate
    for _ in 0..(if thorough { 20000 } else { 1500 }) {
        let n = 1 + rng.below(5) as usize;
        let b0 = random_bdd(rng, n);
        let b = noncanon_variant(rng, &b0);
        let mut t = triples_of(&b);
        if rng.chance(1, 3) && t.len() > 2 {
            let p = 2 + rng.below(t.len() as u64 - 2) as usize;
            match rng.below(3) { 0 => t[p].0 = rng.below(n as u64 + 2), 1 => t[p].1 = rng.below(t.len() as u64 + 1), _ => t[p].2 = rng.below(t.len() as u64 + 1) }
        }
        array_cases(&t, true, out);
    }
}

fn main() { harness_main(gen, run) }
