//! C05 — stub, to be written.
#[path = "../common.rs"]
mod common;
use common::*;

pub fn run(key: &str, _a: &[String], _out: &mut Out) { panic!("unknown key {}", key) }
pub fn gen(_tier: Tier, _rng: &mut Rng64, _out: &mut Out) {}
fn main() { harness_main(gen, run) }
