//! C05: size-limited and dry-run operators agree with the unrestricted operator; cmp_implies.
//!
//! Case kinds (inputs => observed):
//!   C05.lim  <table9> <conn> <L> <R> <fl> <fr> <fo> <limit> => <limited> <unrestricted>
//!   C05.blim <table9> <conn> <L> <R> <limit>                => <limited> <unrestricted>      (binary_op_with_limit / binary_op)
//!   C05.dry  <table9> <conn> <L> <R> <fl> <fr> <fo> <limit> => <dry> <dry-unlimited> <unrestricted>
//!   C05.bdry <table9> <conn> <L> <R> <limit>                => <dry> <dry-unlimited> <unrestricted>  (check_binary_op)
//!   C05.cmp  <A> <B>                                        => less|equal|greater|none|panic
//! `limited`: `none`, a Bdd, or `panic`; `dry`: `none`, `<flag>,<count>` or `panic`; the unlimited dry run
//! uses `usize::MAX` as the limit.
#[path = "../common.rs"]
mod common;
use common::*;
use biodivine_lib_bdd::*;
use std::cmp::Ordering;

fn s(x: &str) -> String { x.to_string() }
fn parse_flip(x: &str) -> Option<usize> { if x == "-" { None } else { Some(x.parse().unwrap()) } }
fn flip_var(f: Option<usize>) -> Option<BddVariable> { f.map(BddVariable::from_index) }

fn fmt_lim(x: &Option<Option<Bdd>>) -> String {
    match x { None => s("panic"), Some(None) => s("none"), Some(Some(b)) => fmt_bdd(b) }
}
fn fmt_dry(x: &Option<Option<(bool, usize)>>) -> String {
    match x { None => s("panic"), Some(None) => s("none"), Some(Some((f, c))) => format!("{},{}", if *f { 1 } else { 0 }, c) }
}

pub fn run(key: &str, a: &[String], out: &mut Out) {
    out.begin(key, a);
    match key {
        "C05.lim" => {
            let (l, r) = (Bdd::from_string(&a[2]), Bdd::from_string(&a[3]));
            let (fl, fr, fo) = (parse_flip(&a[4]), parse_flip(&a[5]), parse_flip(&a[6]));
            let limit: usize = a[7].parse().unwrap();
            let lim = catch(|| Bdd::fused_binary_flip_op_with_limit(limit, (&l, flip_var(fl)), (&r, flip_var(fr)), flip_var(fo), table_fn(&a[0])));
            let unres = catch(|| Bdd::fused_binary_flip_op((&l, flip_var(fl)), (&r, flip_var(fr)), flip_var(fo), table_fn(&a[0])));
            out.case(key, a, &[fmt_lim(&lim), fmt_res_bdd(&unres)]);
        }
        "C05.blim" => {
            let (l, r) = (Bdd::from_string(&a[2]), Bdd::from_string(&a[3]));
            let limit: usize = a[4].parse().unwrap();
            let lim = catch(|| Bdd::binary_op_with_limit(limit, &l, &r, table_fn(&a[0])));
            let unres = catch(|| Bdd::binary_op(&l, &r, table_fn(&a[0])));
            out.case(key, a, &[fmt_lim(&lim), fmt_res_bdd(&unres)]);
        }
        "C05.dry" => {
            let (l, r) = (Bdd::from_string(&a[2]), Bdd::from_string(&a[3]));
            let (fl, fr, fo) = (parse_flip(&a[4]), parse_flip(&a[5]), parse_flip(&a[6]));
            let limit: usize = a[7].parse().unwrap();
            let dry = catch(|| Bdd::check_fused_binary_flip_op(limit, (&l, flip_var(fl)), (&r, flip_var(fr)), flip_var(fo), table_fn(&a[0])));
            let full = catch(|| Bdd::check_fused_binary_flip_op(usize::MAX, (&l, flip_var(fl)), (&r, flip_var(fr)), flip_var(fo), table_fn(&a[0])));
            let unres = catch(|| Bdd::fused_binary_flip_op((&l, flip_var(fl)), (&r, flip_var(fr)), flip_var(fo), table_fn(&a[0])));
            out.case(key, a, &[fmt_dry(&dry), fmt_dry(&full), fmt_res_bdd(&unres)]);
        }
        "C05.bdry" => {
            let (l, r) = (Bdd::from_string(&a[2]), Bdd::from_string(&a[3]));
            let limit: usize = a[4].parse().unwrap();
            let dry = catch(|| Bdd::check_binary_op(limit, &l, &r, table_fn(&a[0])));
            let full = catch(|| Bdd::check_binary_op(usize::MAX, &l, &r, table_fn(&a[0])));
            let unres = catch(|| Bdd::binary_op(&l, &r, table_fn(&a[0])));
            out.case(key, a, &[fmt_dry(&dry), fmt_dry(&full), fmt_res_bdd(&unres)]);
        }
        "C05.cmp" => {
            let (x, y) = (Bdd::from_string(&a[0]), Bdd::from_string(&a[1]));
            let res = catch(|| Bdd::cmp_implies(&x, &y));
            out.case(key, a, &[s(match res {
                None => "panic",
                Some(None) => "none",
                Some(Some(Ordering::Less)) => "less",
                Some(Some(Ordering::Equal)) => "equal",
                Some(Some(Ordering::Greater)) => "greater",
            })]);
        }
        "C05.limA" | "C05.dryA" => {
            // <alias|clone> table conn A fl fr fo limit: both operands are the same function; `alias` passes the
            // SAME object twice, `clone` an equal copy. Plain (non-fused) entry points when all flips are absent.
            let x = Bdd::from_string(&a[3]);
            let y = x.clone();
            let (l, r): (&Bdd, &Bdd) = if a[0] == "alias" { (&x, &x) } else { (&x, &y) };
            let (fl, fr, fo) = (parse_flip(&a[4]), parse_flip(&a[5]), parse_flip(&a[6]));
            let noflip = fl.is_none() && fr.is_none() && fo.is_none();
            let limit: usize = a[7].parse().unwrap();
            let unres = catch(|| if noflip { Bdd::binary_op(l, r, table_fn(&a[1])) }
                else { Bdd::fused_binary_flip_op((l, flip_var(fl)), (r, flip_var(fr)), flip_var(fo), table_fn(&a[1])) });
            if key == "C05.limA" {
                let lim = catch(|| if noflip { Bdd::binary_op_with_limit(limit, l, r, table_fn(&a[1])) }
                    else { Bdd::fused_binary_flip_op_with_limit(limit, (l, flip_var(fl)), (r, flip_var(fr)), flip_var(fo), table_fn(&a[1])) });
                out.case(key, a, &[fmt_lim(&lim), fmt_res_bdd(&unres)]);
            } else {
                let dry = catch(|| if noflip { Bdd::check_binary_op(limit, l, r, table_fn(&a[1])) }
                    else { Bdd::check_fused_binary_flip_op(limit, (l, flip_var(fl)), (r, flip_var(fr)), flip_var(fo), table_fn(&a[1])) });
                let full = catch(|| if noflip { Bdd::check_binary_op(usize::MAX, l, r, table_fn(&a[1])) }
                    else { Bdd::check_fused_binary_flip_op(usize::MAX, (l, flip_var(fl)), (r, flip_var(fr)), flip_var(fo), table_fn(&a[1])) });
                out.case(key, a, &[fmt_dry(&dry), fmt_dry(&full), fmt_res_bdd(&unres)]);
            }
        }
        "C05.cmpA" => {
            // <alias|clone> A: cmp_implies of a Bdd with itself (the same object / an equal copy)
            let x = Bdd::from_string(&a[1]);
            let y = x.clone();
            let res = catch(|| if a[0] == "alias" { Bdd::cmp_implies(&x, &x) } else { Bdd::cmp_implies(&x, &y) });
            out.case(key, a, &[s(match res {
                None => "panic",
                Some(None) => "none",
                Some(Some(Ordering::Less)) => "less",
                Some(Some(Ordering::Equal)) => "equal",
                Some(Some(Ordering::Greater)) => "greater",
            })]);
        }
        _ => panic!("unknown key {}", key),
    }
}

/// limits at numeric boundaries (64-bit target), relative to a result size / task count `k`
fn boundary_limits(k: usize) -> Vec<usize> {
    let p = |e: u32| 1usize << e;
    vec![p(16) - 1, p(16), p(16) + 1, p(31) - 1, p(31), p(31) + 1, p(32) - 1, p(32), p(32) + 1,
         p(32) + k.max(1) - 1, p(32) + k, p(32) + k + 1, p(33), p(33) + k.max(1) - 1, p(40), p(48) + k, p(63), p(63) + k.max(1) - 1,
         usize::MAX / 2, usize::MAX - 1, usize::MAX]
}

/// every limited / dry-run entry point at the numeric boundary limits
fn boundary(table: &str, c: u32, l: &str, r: &str, fl: Option<usize>, fr: Option<usize>, fo: Option<usize>, out: &mut Out) {
    let (lb, rb) = (Bdd::from_string(l), Bdd::from_string(r));
    let size = catch(|| Bdd::fused_binary_flip_op((&lb, flip_var(fl)), (&rb, flip_var(fr)), flip_var(fo), table_fn(table))).map(|b| b.size()).unwrap_or(1);
    let count = catch(|| Bdd::check_fused_binary_flip_op(usize::MAX, (&lb, flip_var(fl)), (&rb, flip_var(fr)), flip_var(fo), table_fn(table))).flatten().map(|x| x.1).unwrap_or(0);
    let noflip = fl.is_none() && fr.is_none() && fo.is_none();
    for limit in boundary_limits(size) {
        if noflip { run("C05.blim", &[s(table), c.to_string(), s(l), s(r), limit.to_string()], out); }
        run("C05.lim", &[s(table), c.to_string(), s(l), s(r), fmt_optvar(fl), fmt_optvar(fr), fmt_optvar(fo), limit.to_string()], out);
    }
    for limit in boundary_limits(count) {
        if noflip { run("C05.bdry", &[s(table), c.to_string(), s(l), s(r), limit.to_string()], out); }
        run("C05.dry", &[s(table), c.to_string(), s(l), s(r), fmt_optvar(fl), fmt_optvar(fr), fmt_optvar(fo), limit.to_string()], out);
    }
}

/// aliasing sweep: the same function as both operands, every limit 0..size+2 / 0..count+1 and a few boundary limits
fn sweep_alias(mode: &str, table: &str, c: u32, a: &str, fl: Option<usize>, fr: Option<usize>, fo: Option<usize>, out: &mut Out) {
    let x = Bdd::from_string(a);
    let size = catch(|| Bdd::fused_binary_flip_op((&x, flip_var(fl)), (&x, flip_var(fr)), flip_var(fo), table_fn(table))).map(|b| b.size()).unwrap_or(1);
    let count = catch(|| Bdd::check_fused_binary_flip_op(usize::MAX, (&x, flip_var(fl)), (&x, flip_var(fr)), flip_var(fo), table_fn(table))).flatten().map(|x| x.1).unwrap_or(0);
    let mut lims: Vec<usize> = (0..=(size + 2)).collect();
    lims.extend([(1usize << 32), (1usize << 32) + size, usize::MAX]);
    for limit in lims {
        run("C05.limA", &[s(mode), s(table), c.to_string(), s(a), fmt_optvar(fl), fmt_optvar(fr), fmt_optvar(fo), limit.to_string()], out);
    }
    let mut lims: Vec<usize> = (0..=(count + 1)).collect();
    lims.extend([(1usize << 32), usize::MAX]);
    for limit in lims {
        run("C05.dryA", &[s(mode), s(table), c.to_string(), s(a), fmt_optvar(fl), fmt_optvar(fr), fmt_optvar(fo), limit.to_string()], out);
    }
}

fn flips(n: usize) -> Vec<Option<usize>> {
    let mut v = vec![None];
    for i in 0..n { v.push(Some(i)); }
    v
}
fn some_table2(rng: &mut Rng64, c: u32) -> String {
    match rng.below(3) { 0 => eager_table2(c), 1 => lazy_table2(c), _ => random_table2(rng, c) }
}

/// every limit from 0 to size+2 for the limited operator, every limit from 0 to count+1 for the dry run
fn sweep(table: &str, c: u32, l: &str, r: &str, fl: Option<usize>, fr: Option<usize>, fo: Option<usize>, rng: &mut Rng64, out: &mut Out) {
    let (lb, rb) = (Bdd::from_string(l), Bdd::from_string(r));
    let unres = catch(|| Bdd::fused_binary_flip_op((&lb, flip_var(fl)), (&rb, flip_var(fr)), flip_var(fo), table_fn(table)));
    let size = unres.map(|b| b.size()).unwrap_or(1);
    let full = catch(|| Bdd::check_fused_binary_flip_op(usize::MAX, (&lb, flip_var(fl)), (&rb, flip_var(fr)), flip_var(fo), table_fn(table)));
    let count = full.flatten().map(|x| x.1).unwrap_or(0);
    let noflip = fl.is_none() && fr.is_none() && fo.is_none();
    for limit in 0..=(size + 2) {
        if noflip && rng.bool() {
            run("C05.blim", &[s(table), c.to_string(), s(l), s(r), limit.to_string()], out);
        } else {
            run("C05.lim", &[s(table), c.to_string(), s(l), s(r), fmt_optvar(fl), fmt_optvar(fr), fmt_optvar(fo), limit.to_string()], out);
        }
    }
    for limit in 0..=(count + 1) {
        if noflip && rng.bool() {
            run("C05.bdry", &[s(table), c.to_string(), s(l), s(r), limit.to_string()], out);
        } else {
            run("C05.dry", &[s(table), c.to_string(), s(l), s(r), fmt_optvar(fl), fmt_optvar(fr), fmt_optvar(fo), limit.to_string()], out);
        }
    }
}

/// value of variable k at truth-table index i over n variables (variable 0 = most significant bit)
fn bit(i: usize, k: usize, n: usize) -> bool { (i >> (n - 1 - k)) & 1 == 1 }

/// a small block over an interleaved subset of the variables: xor / majority / if-then-else / and / or of literals
fn block_tt(rng: &mut Rng64, n: usize) -> TT {
    let k = 2 + rng.below(3) as usize; // 2..4 variables
    let stride = 1 + rng.below(3) as usize;
    let offset = rng.below(n as u64) as usize;
    let mut vars: Vec<usize> = Vec::new();
    for j in 0..k {
        let v = (offset + stride * j) % n;
        if !vars.contains(&v) { vars.push(v); }
    }
    let neg: Vec<bool> = vars.iter().map(|_| rng.chance(1, 3)).collect();
    let kind = rng.below(5);
    (0..(1usize << n)).map(|i| {
        let ls: Vec<bool> = vars.iter().zip(neg.iter()).map(|(v, ng)| bit(i, *v, n) ^ *ng).collect();
        match kind {
            0 => ls.iter().fold(false, |a, b| a ^ *b),
            1 => 2 * ls.iter().filter(|b| **b).count() >= ls.len(),
            2 => if ls.len() >= 3 { if ls[0] { ls[1] } else { ls[2] } } else { ls[0] ^ ls[ls.len() - 1] },
            3 => ls.iter().all(|b| *b),
            _ => ls.iter().any(|b| *b),
        }
    }).collect()
}

/// a small formula: 1..4 blocks joined by and / or / xor
fn formula_tt(rng: &mut Rng64, n: usize) -> TT {
    let mut t = block_tt(rng, n);
    for _ in 0..rng.below(4) {
        let u = block_tt(rng, n);
        let op = rng.below(3);
        t = t.iter().zip(u.iter()).map(|(a, b)| match op { 0 => *a && *b, 1 => *a || *b, _ => *a ^ *b }).collect();
    }
    t
}

/// one pair with an operand of more than 65 536 nodes (a dense pseudo-random function over 20 variables)
struct BigPair { k: usize, big: String, small: String, tt: Vec<bool> }

fn big_pair(k: usize, rng: &mut Rng64) -> BigPair {
    let n = 20usize;
    let size = 1usize << n;
    let tt: Vec<bool> = (0..size).map(|_| rng.bool()).collect();
    let big = fmt_bdd(&bdd_of_tt(n, &tt));
    let small = match k % 3 {
        0 => fmt_bdd(&bdd_of_tt(n, &(0..size).map(|i| i & 3 == 3).collect::<Vec<_>>())), // x18 & x19
        1 => { let m: usize = rng.next() as usize & (size - 1);
               fmt_bdd(&bdd_of_tt(n, &(0..size).map(|i| (i & m).count_ones() % 2 == 1).collect::<Vec<_>>())) } // parity
        _ => fmt_bdd(&bdd_of_tt(n, &(0..size).map(|i| bit(i, 0, n) || (bit(i, 7, n) && !bit(i, 19, n))).collect::<Vec<_>>())),
    };
    BigPair { k, big, small, tt }
}

/// The three parts of a big pair are emitted at different places of the stream (the runner shards the case
/// file into contiguous chunks). part 0: limited operator with limits {size-1, size, usize::MAX} (+ the fused entry point with flips at a limit in the middle and usize::MAX); part 1: dry run
/// with {count-1, count, huge}; part 2: cmp_implies against the big function minus / plus one valuation and
/// against itself. Even k: (small, big); odd k: (big, small); `both_orders` adds the other order.
fn big_emit(p: &BigPair, part: usize, both_orders: bool, rng: &mut Rng64, out: &mut Out) {
    let k = p.k;
    let conns = [8u32, 14, 6, 11, 4, 9];
    let huge = usize::MAX.to_string();
    if part < 2 {
        let mut orders = vec![if k % 2 == 0 { (p.small.clone(), p.big.clone()) } else { (p.big.clone(), p.small.clone()) }];
        if both_orders { orders.push(if k % 2 == 0 { (p.big.clone(), p.small.clone()) } else { (p.small.clone(), p.big.clone()) }); }
        for (j, (l, r)) in orders.iter().enumerate() {
            let c = conns[(k + j) % conns.len()];
            let table = if (k + j) % 2 == 0 { eager_table2(c) } else { lazy_table2(c) };
            let (lb, rb) = (Bdd::from_string(l), Bdd::from_string(r));
            if part == 0 {
                let rsize = catch(|| Bdd::binary_op(&lb, &rb, table_fn(&table))).map(|b| b.size()).unwrap_or(1);
                for limit in [(rsize.max(1) - 1).to_string(), rsize.to_string(), huge.clone()] {
                    run("C05.blim", &[table.clone(), c.to_string(), l.clone(), r.clone(), limit], out);
                }
                if j == 0 {
                    // the fused entry point with flips: a limit in the middle of the run, and no limit
                    let (fl, fr, fo) = (Some(18usize), Some(4usize), Some(19usize));
                    let fsize = catch(|| Bdd::fused_binary_flip_op((&lb, flip_var(fl)), (&rb, flip_var(fr)), flip_var(fo), table_fn(&table))).map(|b| b.size()).unwrap_or(2);
                    for limit in [(fsize / 2).to_string(), huge.clone()] {
                        run("C05.lim", &[table.clone(), c.to_string(), l.clone(), r.clone(), fmt_optvar(fl), fmt_optvar(fr), fmt_optvar(fo), limit], out);
                    }
                }
            } else {
                let count = catch(|| Bdd::check_binary_op(usize::MAX, &lb, &rb, table_fn(&table))).flatten().map(|x| x.1).unwrap_or(0);
                for limit in [(count.max(1) - 1).to_string(), count.to_string(), huge.clone()] {
                    run("C05.bdry", &[table.clone(), c.to_string(), l.clone(), r.clone(), limit], out);
                }
                if j == 0 {
                    let (fl, fr, fo) = (Some(18usize), Some(4usize), Some(19usize));
                    for limit in [(count / 2).to_string(), huge.clone()] {
                        run("C05.dry", &[table.clone(), c.to_string(), l.clone(), r.clone(), fmt_optvar(fl), fmt_optvar(fr), fmt_optvar(fo), limit], out);
                    }
                }
            }
        }
    } else {
        let (n, size) = (20usize, 1usize << 20);
        let i = (0..size).map(|d| (rng.below(size as u64) as usize + d) % size).find(|i| p.tt[*i]).unwrap_or(0);
        let j = (0..size).map(|d| (rng.below(size as u64) as usize + d) % size).find(|j| !p.tt[*j]).unwrap_or(0);
        let mut minus = p.tt.clone(); minus[i] = false;
        let mut plus = p.tt.clone(); plus[j] = true;
        let (minus, plus) = (fmt_bdd(&bdd_of_tt(n, &minus)), fmt_bdd(&bdd_of_tt(n, &plus)));
        run("C05.cmp", &[minus.clone(), p.big.clone()], out);  // strictly below: Less
        run("C05.cmp", &[plus.clone(), p.big.clone()], out);   // plus => big fails in exactly one valuation: Greater
        run("C05.cmp", &[p.big.clone(), p.big.clone()], out);  // Equal
        if both_orders { run("C05.cmp", &[p.big.clone(), minus], out); run("C05.cmp", &[plus, p.small.clone()], out); }
        // a small left operand (x18 & x19: the same left pointer meets tens of thousands of right pointers) whose
        // implication into a big right operand fails in exactly one valuation w: incomparable
        let w = (rng.below(size as u64) as usize) | 3;
        let a = fmt_bdd(&bdd_of_tt(n, &(0..size).map(|i| i & 3 == 3).collect::<Vec<_>>()));
        let bw = fmt_bdd(&bdd_of_tt(n, &(0..size).map(|i| if i & 3 == 3 { i != w } else { p.tt[i] }).collect::<Vec<_>>()));
        run("C05.cmp", &[a.clone(), bw.clone()], out);
        if both_orders { run("C05.cmp", &[bw, a], out); }
    }
}

/// parity / threshold operands over n variables: many shared sub-diagrams
fn shared_tt(rng: &mut Rng64, n: usize) -> TT {
    let size = 1usize << n;
    match rng.below(6) {
        0 => (0..size).map(|i| i.count_ones() % 2 == 1).collect(),                      // x0 ^ … ^ x(n-1)
        1 => (0..size).map(|i| i.count_ones() % 2 == 0).collect(),
        2 => { let m = 1 + rng.below(size as u64 - 1) as usize; (0..size).map(|i| (i & m).count_ones() % 2 == 1).collect() } // xor chain on a subset
        3 => { let k = rng.below(n as u64 + 1) as u32; (0..size).map(|i| (i as u32).count_ones() >= k).collect() }       // threshold
        4 => { let k = rng.below(n as u64 + 1) as u32; (0..size).map(|i| (i as u32).count_ones() == k).collect() }       // exactly k
        _ => { let m = 1 + rng.below(size as u64 - 1) as usize; let k = rng.below(n as u64) as u32;
               (0..size).map(|i| ((i & m) as u32).count_ones() > k).collect() }
    }
}

const CONNS: [u32; 6] = [8, 14, 6, 11, 4, 9];

pub fn gen(tier: Tier, rng: &mut Rng64, out: &mut Out) {
    let thorough = tier == Tier::Thorough;
    // --- operands with more than 65 536 nodes (memo keys / pointers beyond 16 bits): quick 2 pairs, thorough 8;
    //     their parts are emitted between the other sections (see `big_emit`)
    let bigs: Vec<BigPair> = (0..(if thorough { 8 } else { 2 })).map(|k| big_pair(k, rng)).collect();
    let mut slot = 0usize;
    let mut emit_big = |rng: &mut Rng64, out: &mut Out| {
        // slot s: pair (s / 3) % len, part s % 3; thorough emits several slots per call
        let per_call = (3 * bigs.len() + 6) / 7;
        for _ in 0..per_call {
            if slot < 3 * bigs.len() { big_emit(&bigs[slot / 3], slot % 3, thorough, rng, out); slot += 1; }
        }
    };
    emit_big(rng, out);
    // --- n <= 2: all pairs, one random connective/table and flip choice each (thorough: three), all limits
    for n in 0..=2usize {
        let count = 1u64 << (1u64 << n);
        let fs = flips(n);
        for t1 in 0..count { for t2 in 0..count {
            let l = fmt_bdd(&bdd_of_tt(n, &tt_from_index(n, t1)));
            let r = fmt_bdd(&bdd_of_tt(n, &tt_from_index(n, t2)));
            for j in 0..(if thorough { 6 } else { 2 }) {
                let c = rng.below(16) as u32;
                let (fl, fr, fo) = if j == 0 { (None, None, None) } else { (*rng.pick(&fs), *rng.pick(&fs), *rng.pick(&fs)) };
                sweep(&some_table2(rng, c), c, &l, &r, fl, fr, fo, rng, out);
            }
            run("C05.cmp", &[l.clone(), r.clone()], out);
        } }
    }
    emit_big(rng, out);
    // --- n = 3: pairs (sampled in quick, all in thorough) x 6 connectives (one table each) x flips, all limits
    let all3: Vec<String> = (0..256u64).map(|t| fmt_bdd(&bdd_of_tt(3, &tt_from_index(3, t)))).collect();
    let fs3 = flips(3);
    let pairs: u64 = if thorough { 65536 } else { 260 };
    for i in 0..pairs {
        let (a, b) = if thorough { ((i / 256) as usize, (i % 256) as usize) } else { (rng.below(256) as usize, rng.below(256) as usize) };
        let (l, r) = (&all3[a], &all3[b]);
        if thorough {
            // one connective per pair with all limits; the six connectives on a sample
            let c = if rng.chance(1, 3) { rng.below(16) as u32 } else { *rng.pick(&CONNS) };
            let (fl, fr, fo) = if rng.bool() { (None, None, None) } else { (*rng.pick(&fs3), *rng.pick(&fs3), *rng.pick(&fs3)) };
            sweep(&some_table2(rng, c), c, l, r, fl, fr, fo, rng, out);
        } else {
            for c in CONNS {
                if !rng.chance(1, 3) { continue; }
                let (fl, fr, fo) = if rng.bool() { (None, None, None) } else { (*rng.pick(&fs3), *rng.pick(&fs3), *rng.pick(&fs3)) };
                sweep(&some_table2(rng, c), c, l, r, fl, fr, fo, rng, out);
            }
        }
        run("C05.cmp", &[l.clone(), r.clone()], out);
    }
    emit_big(rng, out);
    // --- parity / threshold operands (xor chains over 3..8 variables, thresholds: heavily shared sub-diagrams)
    //     against the constants and against each other, every limit (the last expanded task then has two
    //     non-terminal successors that are both already visited)
    for n in 3..=8usize {
        let t = fmt_bdd(&bdd_of_tt(n, &vec![true; 1 << n]));
        let f = fmt_bdd(&bdd_of_tt(n, &vec![false; 1 << n]));
        let par = fmt_bdd(&bdd_of_tt(n, &(0..(1usize << n)).map(|i| i.count_ones() % 2 == 1).collect::<Vec<_>>()));
        for c in [8u32, 14, 6, 11] {
            sweep(&lazy_table2(c), c, &par, &t, None, None, None, rng, out);
            sweep(&eager_table2(c), c, &f, &par, None, None, None, rng, out);
        }
        let rounds = if thorough { 60 } else { 6 };
        for _ in 0..rounds {
            let a = fmt_bdd(&bdd_of_tt(n, &shared_tt(rng, n)));
            let b = match rng.below(4) { 0 => t.clone(), 1 => f.clone(), _ => fmt_bdd(&bdd_of_tt(n, &shared_tt(rng, n))) };
            let (l, r) = if rng.bool() { (a, b) } else { (b, a) };
            let c = *rng.pick(&CONNS);
            let fs = flips(n);
            let (fl, fr, fo) = if rng.chance(2, 3) { (None, None, None) } else { (*rng.pick(&fs), *rng.pick(&fs), *rng.pick(&fs)) };
            sweep(&some_table2(rng, c), c, &l, &r, fl, fr, fo, rng, out);
        }
    }
    emit_big(rng, out);
    // --- random operands over 4..6 variables (incl. non-canonical operands), all limits
    let rounds = if thorough { 12000 } else { 220 };
    for _ in 0..rounds {
        let n = 4 + rng.below(3) as usize;
        let mut l = random_bdd(rng, n);
        let mut r = random_bdd(rng, n);
        if rng.chance(1, 6) { l = noncanon_variant(rng, &l); }
        if rng.chance(1, 6) { r = noncanon_variant(rng, &r); }
        let (ls, rs) = (fmt_bdd(&l), fmt_bdd(&r));
        let fs = flips(n);
        let c = if rng.bool() { rng.below(16) as u32 } else { *rng.pick(&CONNS) };
        let (fl, fr, fo) = if rng.chance(1, 3) { (None, None, None) } else { (*rng.pick(&fs), *rng.pick(&fs), *rng.pick(&fs)) };
        sweep(&some_table2(rng, c), c, &ls, &rs, fl, fr, fo, rng, out);
    }
    emit_big(rng, out);
    // --- cmp_implies: comparable pairs are rare among random pairs, so build them: a, a&b, a|b, !a, equal copies
    let rounds = if thorough { 20000 } else { 1200 };
    for _ in 0..rounds {
        let n = rng.below(7) as usize;
        let ta = random_tt(rng, n);
        let tb = random_tt(rng, n);
        let a = bdd_of_tt(n, &ta);
        let b = match rng.below(7) {
            0 => bdd_of_tt(n, &tb),
            1 => bdd_of_tt(n, &ta.iter().zip(tb.iter()).map(|(x, y)| *x && *y).collect::<Vec<_>>()),
            2 => bdd_of_tt(n, &ta.iter().zip(tb.iter()).map(|(x, y)| *x || *y).collect::<Vec<_>>()),
            3 => bdd_of_tt(n, &ta.iter().map(|x| !*x).collect::<Vec<_>>()),
            4 => noncanon_variant(rng, &a),
            5 => bdd_of_tt(n, &vec![rng.bool(); 1 << n]),
            _ => { let m = rng.below(7) as usize; random_bdd(rng, m) } // usually another variable count
        };
        let (x, y) = if rng.bool() { (a, b) } else { (b, a) };
        run("C05.cmp", &[fmt_bdd(&x), fmt_bdd(&y)], out);
    }
    // --- cmp_implies on larger, structured operands (6..12 variables, some up to 16): an implication holds by
    //     construction between formulas whose supports are interleaved and only partially overlap, so that the
    //     side-by-side walk of the two diagrams needs many more tasks than |a| + |b| nodes
    let rounds = if thorough { 40000 } else { 2400 };
    for i in 0..rounds {
        let n = if i % 7 == 6 { 13 + rng.below(4) as usize } else { 6 + rng.below(7) as usize };
        let f = formula_tt(rng, n);
        let g = formula_tt(rng, n);
        let h = formula_tt(rng, n);
        let and = |x: &TT, y: &TT| -> TT { x.iter().zip(y.iter()).map(|(a, b)| *a && *b).collect() };
        let or = |x: &TT, y: &TT| -> TT { x.iter().zip(y.iter()).map(|(a, b)| *a || *b).collect() };
        let not = |x: &TT| -> TT { x.iter().map(|a| !*a).collect() };
        let m = rng.below(n as u64) as usize; // the middle literal of a chain
        let lit: TT = (0..(1usize << n)).map(|i| !bit(i, m, n)).collect(); // !x_m
        let (ta, tb): (TT, TT) = match rng.below(10) {
            0 => (and(&f, &g), f.clone()),                 // a = f & g  =>  b = f
            1 => (f.clone(), or(&f, &h)),                  // a = f      =>  b = f | h
            2 | 3 => (and(&f, &g), or(&f, &h)),            // a = f & g  =>  b = f | h
            4 => (and(&lit, &g), or(&lit, &h)),            // a => !x_m => b
            5 => (and(&and(&f, &g), &lit), or(&and(&f, &lit), &h)),
            6 => (f.clone(), f.clone()),                   // equal
            7 => (f.clone(), not(&f)),                     // a vs !a
            8 => (and(&f, &g), and(&f, &h)),               // usually incomparable
            _ => (or(&f, &g), or(&g, &h)),                 // usually incomparable
        };
        let mut a = bdd_of_tt(n, &ta);
        let mut b = bdd_of_tt(n, &tb);
        if rng.chance(1, 10) { a = noncanon_variant(rng, &a); }
        if rng.chance(1, 10) { b = noncanon_variant(rng, &b); }
        let (x, y) = if rng.bool() { (a, b) } else { (b, a) };
        run("C05.cmp", &[fmt_bdd(&x), fmt_bdd(&y)], out);
    }
    // --- limits at numeric boundaries (2^16±1, 2^31±1, 2^32-1, 2^32, 2^32+1, 2^32+size-1, 2^32+size, 2^33, 2^40,
    //     2^63, usize::MAX/2, usize::MAX-1, usize::MAX …) for every limited / dry-run entry point
    {
        // smallest instance first: x0 & true over one variable (3-node result) with limit 2^32
        let (x0, t1) = (fmt_bdd(&bdd_of_tt(1, &[false, true])), fmt_bdd(&bdd_of_tt(1, &[true, true])));
        boundary(&lazy_table2(8), 8, &x0, &t1, None, None, None, out);
        boundary(&eager_table2(8), 8, &x0, &t1, Some(0), None, Some(0), out);
    }
    for _ in 0..(if thorough { 1500 } else { 36 }) {
        let n = 1 + rng.below(6) as usize;
        let f = |rng: &mut Rng64| if n <= 3 { let count = 1u64 << (1u64 << n); fmt_bdd(&bdd_of_tt(n, &tt_from_index(n, rng.below(count)))) }
            else { fmt_bdd(&random_bdd(rng, n)) };
        let (l, r) = (f(rng), f(rng));
        let fs = flips(n);
        let c = if rng.bool() { rng.below(16) as u32 } else { *rng.pick(&CONNS) };
        let (fl, fr, fo) = if rng.bool() { (None, None, None) } else { (*rng.pick(&fs), *rng.pick(&fs), *rng.pick(&fs)) };
        boundary(&some_table2(rng, c), c, &l, &r, fl, fr, fo, out);
    }
    // --- ALIASING: the same function as both operands, once as the SAME object, once as equal clones
    for i in 0..(if thorough { 6000 } else { 110 }) {
        let n = if i % 4 == 3 { 4 + rng.below(3) as usize } else { 1 + rng.below(3) as usize };
        let a = if n <= 3 { let count = 1u64 << (1u64 << n); fmt_bdd(&bdd_of_tt(n, &tt_from_index(n, rng.below(count)))) }
            else { fmt_bdd(&random_bdd(rng, n)) };
        let fs = flips(n);
        let c = if rng.bool() { rng.below(16) as u32 } else { *rng.pick(&CONNS) };
        let (fl, fr, fo) = if rng.chance(1, 3) { (None, None, None) } else { (*rng.pick(&fs), *rng.pick(&fs), *rng.pick(&fs)) };
        let table = some_table2(rng, c);
        sweep_alias("alias", &table, c, &a, fl, fr, fo, out);
        if thorough || i % 3 == 0 { sweep_alias("clone", &table, c, &a, fl, fr, fo, out); }
        run("C05.cmpA", &[s("alias"), a.clone()], out);
        run("C05.cmpA", &[s("clone"), a], out);
    }
    emit_big(rng, out);
    // --- panics come before the limit test: out-of-range flips, different variable counts, any limit
    let rounds = if thorough { 2000 } else { 150 };
    for _ in 0..rounds {
        let n = 1 + rng.below(4) as usize;
        let (ls, rs) = (fmt_bdd(&random_bdd(rng, n)), fmt_bdd(&random_bdd(rng, n)));
        let bad = [Some(n), Some(n + 3), Some(65535usize)];
        let pos = rng.below(3);
        let fs = flips(n);
        let f = |rng: &mut Rng64, i: u64| if i == pos { *rng.pick(&bad) } else if rng.bool() { None } else { *rng.pick(&fs) };
        let (fl, fr, fo) = (f(rng, 0), f(rng, 1), f(rng, 2));
        let c = rng.below(16) as u32;
        let limit = rng.below(4).to_string();
        let t = some_table2(rng, c);
        run("C05.lim", &[t.clone(), c.to_string(), ls.clone(), rs.clone(), fmt_optvar(fl), fmt_optvar(fr), fmt_optvar(fo), limit.clone()], out);
        run("C05.dry", &[t.clone(), c.to_string(), ls.clone(), rs.clone(), fmt_optvar(fl), fmt_optvar(fr), fmt_optvar(fo), limit.clone()], out);
        if rng.chance(1, 3) {
            let other = fmt_bdd(&random_bdd(rng, n + 1));
            run("C05.blim", &[t.clone(), c.to_string(), ls.clone(), other.clone(), limit.clone()], out);
            run("C05.bdry", &[t.clone(), c.to_string(), other.clone(), rs.clone(), limit.clone()], out);
            run("C05.lim", &[t.clone(), c.to_string(), other, rs.clone(), s("-"), s("0"), s("-"), limit.clone()], out);
        }
    }
    emit_big(rng, out);
}

fn main() { harness_main(gen, run) }
